"""M1 + M2 for the arithmetic core: the MpfMachine models (transcribed libmp algorithms against the
postconditions, exhaustively over a miniature universe) and the replay of every printed transition
on the real libmp functions.  A transition is (op, a, b, prec, mode, result tuple); the real
function must return the identical tuple (sign, mantissa, exponent, bit count)."""
import re
from . import tlc

_TOK = re.compile(r'\s*(<<|>>|,|-?\d+|"[^"]*")')


def parse_value(text):
    """Parse a TLC-printed tuple of ints / strings / nested tuples."""
    toks = _TOK.findall(text)
    pos = 0

    def val():
        nonlocal pos
        t = toks[pos]
        if t == "<<":
            pos += 1
            out = []
            while toks[pos] != ">>":
                if toks[pos] == ",":
                    pos += 1
                    continue
                out.append(val())
            pos += 1
            return out
        pos += 1
        if t.startswith('"'):
            return t[1:-1]
        return int(t)
    return val()


def zint(v):
    """native int, or a ZLimb value <<sgn, <<limbs little endian base 2^10>>>>"""
    if isinstance(v, int):
        return v
    n = 0
    for k, limb in enumerate(v[1]):
        n |= limb << (10 * k)
    return -n if v[0] else n


def mpf_of(s, m, e, bc):
    return (s, zint(m), e, bc)


RND = {"n": "n", "f": "f", "c": "c", "d": "d", "u": "u"}


def replay_transitions(chk, mp, out, ops, want_cmp, tagname):
    """Replay the transitions printed by an Emit/EmitCmp run.  ops: set of op names owned by the
    calling property (others are skipped); want_cmp: replay the comparison records."""
    L = mp.libmp
    fn = {"add": L.mpf_add, "sub": L.mpf_sub, "mul": L.mpf_mul, "div": L.mpf_div, "mod": L.mpf_mod}
    n = 0
    if ops:
        for raw in tlc.parse_tuples(out, "T"):
            v = parse_value(raw)
            op = v[1]
            if op not in ops:
                continue
            x = mpf_of(*v[2:6]); y = mpf_of(*v[6:10]); p = v[10]; rnd = v[11]; want = mpf_of(*v[12:16])
            try:
                got = tuple(fn[op](x, y, p, rnd))
            except Exception as e:                                   # noqa: BLE001
                got = ("exc", type(e).__name__)
            n += 1
            chk.count()
            chk.distinct(("machine", tagname, op, x, y, p, rnd), x[1] != 0 and y[1] != 0 and want[1] != 0)
            if got != want:
                chk.violation("machine/%s/%s" % (tagname, op),
                              "real libmp disagrees with the model transition: %s(%r, %r, %d, %r) = %r, model (= correctly rounded) %r"
                              % (op, x, y, p, rnd, got, want),
                              {"machine": {"op": op, "x": list(x), "y": list(y), "p": p, "rnd": rnd, "want": list(want)}})
    if want_cmp:
        for raw in tlc.parse_tuples(out, "K"):
            v = parse_value(raw)
            x = mpf_of(*v[1:5]); y = mpf_of(*v[5:9]); want = v[9]
            got = L.mpf_cmp(x, y)
            n += 1
            chk.count()
            chk.distinct(("machine", tagname, "cmp", x, y), x[1] != 0 and y[1] != 0)
            if got != want:
                chk.violation("machine/%s/cmp" % tagname,
                              "real mpf_cmp disagrees with the model: cmp(%r, %r) = %r, model (= exact order) %r" % (x, y, got, want),
                              {"machine": {"op": "cmp", "x": list(x), "y": list(y), "want": want}})
    return n


INV_OF = {"C01": "Canon", "C02": "AlgoMeetsPost", "C05": "CmpExact", "C06": "AlgoMeetsPost", "C10": "Bounded"}
OPS_OF = {"C01": {"add", "sub", "mul", "div", "mod"}, "C02": {"add", "sub", "mul", "div"}, "C05": set(),
          "C06": {"mod"}, "C10": {"add", "sub", "mul", "div", "mod"}}


def run(chk, mp):
    """M1: MpfMachine_<prop>_<tier> (scaled constants, native ints).  M2: replay of MpfMachine_emit
    (scaled constants) and of MpfMachineL_real (the code's constants, limbs; the model's own
    invariants are checked in the same run)."""
    prop = chk.prop
    tier = chk.pick("quick", "thorough")
    res = tlc.run_model("MpfMachine", "MpfMachine_%s_%s.cfg" % (prop.lower(), tier), timeout=chk.pick(900, 14400))
    if not res["ok"] and res["violated"] is None:
        chk.machinery("MpfMachine: TLC failed\n%s" % res["output"][-3000:])
    chk.add_model(res, "MpfMachine/" + INV_OF[prop])
    if res["violated"]:
        chk.machinery("MpfMachine: the transcribed algorithm violates %s in the model -- the model (not the code) is "
                      "what this says something about; see the TLC output\n%s" % (res["violated"], res["output"][-3000:]))
    n = 0
    for module, cfg, tag in (("MpfMachine", "MpfMachine_emit_%s.cfg" % prop.lower(), "scaled"),
                             ("MpfMachineL", "MpfMachineL_real_%s_%s.cfg" % (prop.lower(), tier), "real")):
        r = tlc.run_model(module, cfg, timeout=chk.pick(900, 7200))
        if not r["ok"]:
            chk.machinery("%s/%s: TLC failed or invariant violated (%s)\n%s" % (module, cfg, r["violated"], r["output"][-3000:]))
        chk.add_model(r, "%s/%s" % (module, cfg))
        k = replay_transitions(chk, mp, r["output"], OPS_OF[prop], prop == "C05", tag)
        if k == 0:
            chk.machinery("%s/%s printed no transitions for %s" % (module, cfg, prop))
        n += k
    chk.add_traces(n)
    chk.notes.append("M2: %d model transitions replayed on the real libmp functions (identical tuples required)" % n)
    return n


def replay_unary(chk, mp, out, tagname):
    """P records: (a, n, prec, mode, result) of mpf_pow_int; R records: (a, mode, result) of mpf_round_int"""
    L = mp.libmp
    n = 0
    for raw in tlc.parse_tuples(out, "P"):
        v = parse_value(raw)
        x = mpf_of(*v[1:5]); nn = v[5]; p = v[6]; rnd = v[7]; want = mpf_of(*v[8:12])
        try:
            got = tuple(L.mpf_pow_int(x, nn, p, rnd))
        except Exception as e:                                       # noqa: BLE001
            got = ("exc", type(e).__name__)
        n += 1; chk.count(); chk.distinct(("machine", tagname, "pow", x, nn, p, rnd), True)
        if got != want:
            chk.violation("machine/%s/pow_int" % tagname,
                          "real mpf_pow_int disagrees with the model transition: pow_int(%r, %d, %d, %r) = %r, model %r" % (x, nn, p, rnd, got, want),
                          {"machine": {"op": "pow_int", "x": list(x), "n": nn, "p": p, "rnd": rnd, "want": list(want)}})
    for raw in tlc.parse_tuples(out, "S"):
        v = parse_value(raw)
        x = mpf_of(*v[1:5]); p = v[5]; rnd = v[6]; want = mpf_of(*v[7:11])
        got = tuple(L.mpf_sqrt(x, p, rnd))
        n += 1; chk.count(); chk.distinct(("machine", tagname, "sqrt", x, p, rnd), x[1] != 0)
        if got != want:
            chk.violation("machine/%s/sqrt" % tagname,
                          "real mpf_sqrt disagrees with the model transition (= the correctly rounded root): sqrt(%r, %d, %r) = %r, model %r" % (x, p, rnd, got, want),
                          {"machine": {"op": "sqrt", "x": list(x), "p": p, "rnd": rnd, "want": list(want)}})
    for raw in tlc.parse_tuples(out, "R"):
        v = parse_value(raw)
        x = mpf_of(*v[1:5]); rnd = v[5]; want = mpf_of(*v[6:10])
        got = tuple(L.libmpf.mpf_round_int(x, rnd))
        n += 1; chk.count(); chk.distinct(("machine", tagname, "round_int", x, rnd), x[1] != 0)
        if got != want:
            chk.violation("machine/%s/round_int" % tagname,
                          "real mpf_round_int disagrees with the model (= exact floor / ceil / nearest integer): round_int(%r, %r) = %r, model %r" % (x, rnd, got, want),
                          {"machine": {"op": "round_int", "x": list(x), "rnd": rnd, "want": list(want)}})
    return n


def run_unary(chk, mp, runs):
    """runs: list of (module, cfg, tag, replay?) -- M1 invariants in every run; M2 replay of the printed transitions where
    the model carries the code's real constants (with scaled constants the branch taken differs, so only the invariant is meaningful)"""
    total = 0
    for module, cfg, tag, do_replay in runs:
        r = tlc.run_model(module, cfg, timeout=chk.pick(900, 14400))
        if not r["ok"]:
            chk.machinery("%s/%s: TLC failed or invariant violated (%s)\n%s" % (module, cfg, r["violated"], r["output"][-3000:]))
        chk.add_model(r, "%s/%s" % (module, cfg))
        if do_replay:
            k = replay_unary(chk, mp, r["output"], tag)
            if k == 0:
                chk.machinery("%s/%s printed no transitions" % (module, cfg))
            total += k
    chk.add_traces(total)
    chk.notes.append("M2: %d model transitions (pow_int / round_int) replayed on the real libmp functions (identical tuples required)" % total)
    return total


def replay_one(mp, rec):
    L = mp.libmp
    m = rec["machine"]
    x = tuple(m["x"]); y = tuple(m.get("y", ()))
    if m["op"] == "pow_int":
        got = tuple(L.mpf_pow_int(tuple(m["x"]), m["n"], m["p"], m["rnd"])); want = tuple(m["want"])
        print("transition:", m); print("real:", got, "model:", want)
        return got == want
    if m["op"] == "sqrt":
        got = tuple(L.mpf_sqrt(tuple(m["x"]), m["p"], m["rnd"])); want = tuple(m["want"])
        print("transition:", m); print("real:", got, "model:", want)
        return got == want
    if m["op"] == "round_int":
        got = tuple(L.libmpf.mpf_round_int(tuple(m["x"]), m["rnd"])); want = tuple(m["want"])
        print("transition:", m); print("real:", got, "model:", want)
        return got == want
    if m["op"] == "cmp":
        got = L.mpf_cmp(x, y); want = m["want"]
    else:
        fn = {"add": L.mpf_add, "sub": L.mpf_sub, "mul": L.mpf_mul, "div": L.mpf_div, "mod": L.mpf_mod}[m["op"]]
        got = tuple(fn(x, y, m["p"], m["rnd"])); want = tuple(m["want"])
    print("transition:", m)
    print("real:", got, "model:", want)
    return got == want
