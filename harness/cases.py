"""Structured call descriptors: a *case* names a semantic operation, an entry level into the
implementation, fully explicit arguments, precision and rounding.  execute() runs it against
the mpmath of /repo; to_event() turns case + outcome into the ndjson event judged by TLC.
Cases are JSON-able, so a replay file is just the case."""
import fractions
from . import enc
from .gen import FZERO

# ---- argument descriptors ------------------------------------------------------
#  ["f", s, man, exp, bc]  raw mpf      ["z", n] int      ["d", hex] float
#  ["q", p, q] Fraction    ["l", [..]] list


def A_f(t):
    return ["f", int(t[0]), int(t[1]), int(t[2]), int(t[3])]


def A_z(n):
    return ["z", int(n)]


def A_d(x):
    return ["d", float(x).hex()]


def A_q(p, q):
    return ["q", int(p), int(q)]


def A_mq(p, q):
    """an mpmath rational (mpq) at the context level, a Fraction at the libmp level"""
    return ["mq", int(p), int(q)]


def A_l(xs):
    return ["l", list(xs)]


def py_raw(a):
    """descriptor -> raw libmp-level python value"""
    k = a[0]
    if k == "f":
        return (a[1], a[2], a[3], a[4])
    if k == "z":
        return a[1]
    if k == "d":
        return float.fromhex(a[1])
    if k in ("q", "mq"):
        return fractions.Fraction(a[1], a[2])
    if k == "l":
        return [py_raw(x) for x in a[1]]
    raise ValueError(k)


def py_ctx(a, mp):
    """descriptor -> context-level python value (mpf objects made without rounding)"""
    k = a[0]
    if k == "f":
        return mp.make_mpf((a[1], a[2], a[3], a[4]))
    if k == "l":
        return [py_ctx(x, mp) for x in a[1]]
    if k == "mq":
        return mp.mpq(a[1], a[2])
    return py_raw(a)


def enc_arg(a):
    k = a[0]
    if k == "f":
        return enc.f((a[1], a[2], a[3], a[4]))
    if k == "z":
        return enc.z(a[1])
    if k == "d":
        return enc.d(float.fromhex(a[1]))
    if k in ("q", "mq"):
        return enc.q(a[1], a[2])
    if k == "l":
        return enc.t([enc_arg(x) for x in a[1]])
    raise ValueError(k)


# ---- outcome encoding ---------------------------------------------------------------
def enc_out(v):
    """python outcome of a call -> JSON outcome"""
    if isinstance(v, BaseException):
        return enc.exc(v)
    if isinstance(v, bool):
        return enc.b(v)
    if isinstance(v, int):
        return enc.z(v)
    if isinstance(v, float):
        return enc.d(v)
    if v is None:
        return enc.sym("none")
    if isinstance(v, tuple) and len(v) == 4 and all(isinstance(x, int) for x in v):
        return enc.f(v)
    if hasattr(v, "_mpf_"):
        return enc.f(v._mpf_)
    if hasattr(v, "_mpc_"):
        return enc.c(v._mpc_)
    if hasattr(v, "_mpi_"):
        return enc.v(v._mpi_)
    if isinstance(v, (tuple, list)):
        return enc.t([enc_out(x) for x in v])
    raise TypeError("cannot encode outcome %r" % (v,))


def case(op, lvl, args, p, r="n", **kw):
    return {"op": op, "lvl": lvl, "args": list(args), "p": int(p), "r": r, "kw": kw}


class CaseTimeout(Exception):
    pass


class Runner:
    """Executes cases against the implementation under /repo."""

    def __init__(self, mpmath):
        self.m = mpmath
        self.mp = mpmath.mp
        self.libmp = mpmath.libmp

    def run(self, c):
        # a library call that does not return (a change that makes a loop endless) must end the case, not hang the check:
        # two minutes for one arithmetic operation is three to six orders of magnitude above normal
        import signal, threading
        timed = threading.current_thread() is threading.main_thread()
        if timed:
            def fire(signum, frame):
                raise CaseTimeout("operation did not return within 120 s")
            old = signal.signal(signal.SIGALRM, fire)
            signal.setitimer(signal.ITIMER_REAL, 120)
        try:
            return self._run_guarded(c)
        except CaseTimeout as e:
            return e
        finally:
            if timed:
                signal.setitimer(signal.ITIMER_REAL, 0)
                signal.signal(signal.SIGALRM, old)

    def _run_guarded(self, c):
        try:
            return self._run(c)
        except (ZeroDivisionError, ValueError, OverflowError, TypeError, NotImplementedError,
                self.libmp.ComplexResult, self.libmp.NoConvergence if hasattr(self.libmp, "NoConvergence") else ArithmeticError) as e:
            return e

    def _run(self, c):
        lvl = c["lvl"]
        fn = ROUTES[(c["op"], lvl)]
        mp = self.mp
        if lvl in ("libmp", "libmpint"):
            return fn(self.libmp, [py_raw(a) for a in c["args"]], c["p"], c["r"], c["kw"])
        saved = mp.prec
        try:
            if lvl in ("oper", "ofun"):       # operators / plain functions read the context precision; rounding is 'n'
                mp.prec = c["p"] if c["p"] else saved
            return fn(mp, [py_ctx(a, mp) for a in c["args"]], c["p"], c["r"], c["kw"])
        finally:
            mp.prec = saved


def _kw(p, r, kw):
    """keyword arguments for f-functions / constructors: prec (or dps / exact) + rounding"""
    out = {}
    if kw.get("exact"):
        out["exact"] = True
    elif kw.get("inf"):
        out["prec"] = float("inf")
    else:
        out["prec"] = p
    out["rounding"] = r
    return out


L = "libmp"; O = "oper"; F = "ffun"; C = "ctor"
ROUTES = {
    ("add", L): lambda lm, a, p, r, kw: lm.mpf_add(a[0], a[1], p, r),
    ("sub", L): lambda lm, a, p, r, kw: lm.mpf_sub(a[0], a[1], p, r),
    ("mul", L): lambda lm, a, p, r, kw: lm.mpf_mul(a[0], a[1], p, r),
    ("div", L): lambda lm, a, p, r, kw: lm.mpf_div(a[0], a[1], p, r),
    ("mul", "libmpint"): lambda lm, a, p, r, kw: lm.mpf_mul_int(a[0], a[1], p, r),          # backend-specific implementation (python / gmpy)
    ("div", "libmpint"): lambda lm, a, p, r, kw: lm.mpf_rdiv_int(a[0], a[1], p, r),          # n / x
    ("sqrt", L): lambda lm, a, p, r, kw: lm.mpf_sqrt(a[0], p, r),
    ("pos", L): lambda lm, a, p, r, kw: lm.mpf_pos(a[0], p, r),
    ("neg", L): lambda lm, a, p, r, kw: lm.mpf_neg(a[0], p, r),
    ("abs", L): lambda lm, a, p, r, kw: lm.mpf_abs(a[0], p, r),
    ("from_int", L): lambda lm, a, p, r, kw: lm.from_int(a[0], p, r),
    ("from_rational", L): lambda lm, a, p, r, kw: lm.from_rational(a[0].numerator, a[0].denominator, p, r),
    ("from_float", L): lambda lm, a, p, r, kw: lm.from_float(a[0], p, r) if p else lm.from_float(a[0]),
    ("sum", L): lambda lm, a, p, r, kw: lm.mpf_sum(a[0], p, r),
    ("mulint", L): lambda lm, a, p, r, kw: lm.mpf_mul_int(a[0], a[1], p, r),
    ("rdivint", L): lambda lm, a, p, r, kw: lm.mpf_rdiv_int(a[0], a[1], p, r),
    ("add", O): lambda mp, a, p, r, kw: a[0] + a[1],
    ("sub", O): lambda mp, a, p, r, kw: a[0] - a[1],
    ("mul", O): lambda mp, a, p, r, kw: a[0] * a[1],
    ("div", O): lambda mp, a, p, r, kw: a[0] / a[1],
    ("neg", O): lambda mp, a, p, r, kw: -a[0],
    ("pos", O): lambda mp, a, p, r, kw: +a[0],
    ("abs", O): lambda mp, a, p, r, kw: abs(a[0]),
    ("sqrt", O): lambda mp, a, p, r, kw: mp.sqrt(a[0]),
    ("sum", O): lambda mp, a, p, r, kw: mp.fsum(a[0]),
    ("dot", O): lambda mp, a, p, r, kw: mp.fdot(a[0], a[1]),
    ("add", F): lambda mp, a, p, r, kw: mp.fadd(a[0], a[1], **_kw(p, r, kw)),
    ("sub", F): lambda mp, a, p, r, kw: mp.fsub(a[0], a[1], **_kw(p, r, kw)),
    ("mul", F): lambda mp, a, p, r, kw: mp.fmul(a[0], a[1], **_kw(p, r, kw)),
    ("div", F): lambda mp, a, p, r, kw: mp.fdiv(a[0], a[1], **_kw(p, r, kw)),
    ("neg", F): lambda mp, a, p, r, kw: mp.fneg(a[0], **_kw(p, r, kw)),
    ("sqrt", F): lambda mp, a, p, r, kw: mp.sqrt(a[0], prec=p, rounding=r),
    ("from_int", C): lambda mp, a, p, r, kw: mp.mpf(a[0], prec=p, rounding=r),
    ("from_float", C): lambda mp, a, p, r, kw: mp.mpf(a[0], prec=p, rounding=r),
    ("from_rational", O): lambda mp, a, p, r, kw: mp.convert(a[0]),
    ("from_int", O): lambda mp, a, p, r, kw: mp.convert(a[0]) + 0,
    ("pos", C): lambda mp, a, p, r, kw: mp.mpf(a[0], prec=p, rounding=r),
}


def _seti(mp, p):
    return None

ROUTES.update({
    ("floor", L): lambda lm, a, p, r, kw: lm.mpf_floor(a[0], p, r),
    ("ceil", L): lambda lm, a, p, r, kw: lm.mpf_ceil(a[0], p, r),
    ("nint", L): lambda lm, a, p, r, kw: lm.mpf_nint(a[0], p, r),
    ("frac", L): lambda lm, a, p, r, kw: lm.mpf_frac(a[0], p, r),
    ("floor", O): lambda mp, a, p, r, kw: mp.floor(a[0]),
    ("ceil", O): lambda mp, a, p, r, kw: mp.ceil(a[0]),
    ("nint", O): lambda mp, a, p, r, kw: mp.nint(a[0]),
    ("frac", O): lambda mp, a, p, r, kw: mp.frac(a[0]),
    ("floor", F): lambda mp, a, p, r, kw: mp.floor(a[0], prec=p, rounding=r),
    ("ceil", F): lambda mp, a, p, r, kw: mp.ceil(a[0], prec=p, rounding=r),
    ("nint", F): lambda mp, a, p, r, kw: mp.nint(a[0], prec=p, rounding=r),
    ("frac", F): lambda mp, a, p, r, kw: mp.frac(a[0], prec=p, rounding=r),
    ("to_int", L): lambda lm, a, p, r, kw: lm.to_int(a[0]),
    ("to_int", O): lambda mp, a, p, r, kw: int(a[0]),
    ("mod", L): lambda lm, a, p, r, kw: lm.mpf_mod(a[0], a[1], p, r),
    ("mod", O): lambda mp, a, p, r, kw: a[0] % a[1],
    ("mod", "ofun"): lambda mp, a, p, r, kw: mp.fmod(a[0], a[1]),
    ("pow_int", L): lambda lm, a, p, r, kw: lm.mpf_pow_int(a[0], a[1], p, r),
    ("pow_int", O): lambda mp, a, p, r, kw: a[0] ** a[1],
    ("pow_int", "ofun"): lambda mp, a, p, r, kw: mp.power(a[0], a[1]),
    ("to_float", L): lambda lm, a, p, r, kw: lm.to_float(a[0], rnd="n"),
    ("to_float", O): lambda mp, a, p, r, kw: float(a[0]),
    ("hash_eq", O): lambda mp, a, p, r, kw: (a[0] == a[1], hash(a[0]), hash(a[1])),
    ("mag", O): lambda mp, a, p, r, kw: mp.mag(a[0]),
    ("frexp", O): lambda mp, a, p, r, kw: mp.frexp(a[0]),
    ("ldexp", O): lambda mp, a, p, r, kw: mp.ldexp(a[0], a[1]),
    ("isint", O): lambda mp, a, p, r, kw: mp.isint(a[0]),
    ("nint_distance", O): lambda mp, a, p, r, kw: mp.nint_distance(a[0]),
})
for _rel, _fn, _pyop in [("lt", "mpf_lt", lambda x, y: x < y), ("le", "mpf_le", lambda x, y: x <= y),
                         ("gt", "mpf_gt", lambda x, y: x > y), ("ge", "mpf_ge", lambda x, y: x >= y),
                         ("eq", "mpf_eq", lambda x, y: x == y), ("ne", None, lambda x, y: x != y)]:
    if _fn:
        ROUTES[(_rel, L)] = (lambda fn: lambda lm, a, p, r, kw: getattr(lm, fn)(a[0], a[1]))(_fn)
    ROUTES[(_rel, O)] = (lambda f: lambda mp, a, p, r, kw: f(a[0], a[1]))(_pyop)


def _sym_or_int(v):
    """mag / nint_distance exponents: an int, or the context's -inf/+inf/nan"""
    if isinstance(v, int):
        return enc.i(v)
    t = v._mpf_
    from .gen import FINF, FNINF, FNAN
    return enc.sym({FINF: "pinf", FNINF: "ninf", FNAN: "nan"}[t])


OUTENC = {
    "mag": lambda v: _sym_or_int(v),
    "frexp": lambda v: enc.t([enc_out(v[0]), enc.i(v[1])]),
    "nint_distance": lambda v: enc.t([enc.z(v[0]), _sym_or_int(v[1])]),
}

# semantic op reported to the spec for each case op (entry-level variants collapse)
SEM = {"mulint": "mul", "rdivint": "div"}


def to_event(id_, c, outcome, pb=None):
    args = [enc_arg(a) for a in c["args"]]
    op = SEM.get(c["op"], c["op"])
    p = 0 if (c["kw"].get("exact") or c["kw"].get("inf")) else c["p"]
    if pb is None:
        pb = p
    if op in OUTENC and not isinstance(outcome, BaseException):
        o = OUTENC[op](outcome)
    else:
        o = enc_out(outcome)
    extra = [enc_arg(a) for a in c.get("wit", [])]
    if op == "hash_eq" and not isinstance(outcome, BaseException):
        extra = [enc.b(outcome[0]), enc.z(outcome[1]), enc.z(outcome[2])]
        o = enc.sym("none")
    return enc.event(id_, op, args + extra, p, c["r"], o, pb=pb)
