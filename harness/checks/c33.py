"""C33 -- cached state never leaks stale or wrong results into later calls.

M1: MatrixLU (LUFresh, CopyIndependent), PrecCache (NoStaleHit, AbortSafe) for the log_int and
    zeta_int protocols, exhaustive; ConstMemo is run by C17.
M2: every history printed by the *_paths configurations is replayed on the real objects: after each
    step the projected cache state (slot filled? / cached precision per key) must equal the spec's,
    hits must be hits, aborts (an exception injected inside the fill) must leave the cache as the
    spec says, and the value returned must agree with a computation on empty caches.
M3: seeded interleavings of documentation statements at random precisions with injected faults,
    followed by probe evaluations compared (by TLC, clause near) with the same probes evaluated in a
    fresh subprocess."""
import json, os, random, subprocess, sys
from .. import core, tlc, enc, corpus, precrec

PROP = "C33"; LEVEL = "model_checking"


def histories(chk, module, cfg, cap, rng):
    res = tlc.run_model(module, cfg, timeout=3600)
    chk.add_model(res, module + "/" + cfg)
    if not res["ok"]:
        if res["violated"]:
            chk.violation("model/%s/%s" % (module, res["violated"]), "cache design model violates " + res["violated"], {"cfg": cfg})
            return []
        chk.machinery(cfg + ": TLC failed\n" + res["output"][-2000:])
    hs = []
    for tup in tlc.parse_tuples(res["output"], "HIST"):
        js = tup[tup.index(',') + 1:].strip()[:-2].strip()
        hs.append(json.loads(json.loads(js)))
    rng.shuffle(hs)
    return hs[:cap]


# ---------------------------------------------------------------- MatrixLU replay
def replay_lu(chk, mpmath, hs):
    mp = mpmath.mp
    n_ok = 0
    for h in hs:
        mp.prec = h["p0"]
        objs = {"A": mp.matrix([[4, 1, 2], [1, 5, 1], [2, 1, 7]]), "B": mp.matrix([[3, 1, 0], [1, 4, 1], [0, 1, 5]])}
        try:
            for step, a in enumerate(h["h"]):
                o = objs.get(a.get("o"))
                if a["a"] == "SetItem":
                    if step % 2:
                        o[0, 0] = o[0, 0] + 1
                    else:
                        o[0, :] = o[0, :] * 2
                elif a["a"] == "Resize":
                    if a["d"] < o.rows:
                        o.rows = a["d"]; o.cols = a["d"]
                    else:
                        o.rows = a["d"]; o.cols = a["d"]
                        for i in range(a["d"]):
                            if o[i, i] == 0:
                                o[i, i] = 9 + i
                elif a["a"] == "Copy":
                    objs[a["q"]] = objs[a["o"]].copy()
                elif a["a"] == "SetPrec":
                    mp.prec = a["p"]
                elif a["a"] == "LUDecomp":
                    before = o._LU
                    got = mp.LU_decomp(o, use_cache=a["cache"])
                    hit = before is not None and got is before
                    if hit != a["hit"]:
                        chk.violation("lu/hit-mismatch", "LU_decomp cache hit=%s but the spec says %s after %s" % (hit, a["hit"], json.dumps(h["h"][:step + 1])),
                                      {"kind": "lu", "hist": h, "step": step})
                    # value: the returned factors must equal a factorisation of the current data at the current precision
                    fresh = mp.LU_decomp(o.copy(), use_cache=False)
                    same = [x._mpf_ for x in got[0]] == [x._mpf_ for x in fresh[0]]
                    if not same and hit:
                        # a hit may return factors computed at a HIGHER precision: then only closeness is required
                        d = max(abs(x - y) for x, y in zip(got[0], fresh[0]))
                        same = d <= mp.ldexp(max(abs(y) for y in fresh[0]), 8 - mp.prec)
                    if not same or got[1] != fresh[1]:
                        chk.violation("lu/stale-value", "LU_decomp returned factors that differ from a fresh factorisation after %s" % json.dumps(h["h"][:step + 1]),
                                      {"kind": "lu", "hist": h, "step": step})
                filled = {k: (v._LU is not None) for k, v in objs.items()}
                chk.count()
                if filled != a["filled"]:
                    chk.violation("lu/projection", "cache slots %s differ from the spec's %s after %s" % (filled, a["filled"], json.dumps(h["h"][:step + 1])),
                                  {"kind": "lu", "hist": h, "step": step})
            n_ok += 1
            chk.distinct(json.dumps(h), True)
        finally:
            mp.prec = 53
    return n_ok


# ---------------------------------------------------------------- PrecCache replay
def replay_cache(chk, mpmath, hs, which):
    lm = mpmath.libmp
    if which == "logint":
        cache = lm.libelefun.log_int_cache
        call = lambda k, p: lm.libelefun.log_int_fixed(k, p)
        target = {"fill": lm.libelefun.mpf_log.__code__}
        proj = lambda k: cache[k][1] if k in cache else -1
        def agree(a, b, p):
            return abs(a - b) <= 1
    else:
        cache = lm.gammazeta.zeta_int_cache
        call = lambda k, p: lm.mpf_zeta_int(k, p)
        target = {"fill": lm.gammazeta.borwein_coefficients.__code__}
        proj = lambda k: cache[k][0] if k in cache else -1
        def agree(a, b, p):
            if a == b:
                return True
            from fractions import Fraction
            fa = Fraction(a[1]) * Fraction(2) ** a[2]; fb = Fraction(b[1]) * Fraction(2) ** b[2]
            return abs(fa - fb) <= Fraction(2) ** (max(a[2] + a[3], b[2] + b[3]) - p)
    inj = precrec.Injector(target)
    n_ok = 0
    try:
        for h in hs:
            cache.clear()
            for step, a in enumerate(h["h"]):
                k, p = a["k"], a["p"]
                if a["a"] == "Lookup":
                    inj.begin(None)
                    got = call(k, p)
                    saved = dict(cache)
                    cache.clear()
                    fresh = call(k, p)
                    cache.clear(); cache.update(saved)
                    if not agree(got, fresh, p):
                        chk.violation("%s/stale-value" % which, "value after %s differs from a fresh computation" % json.dumps(h["h"][:step + 1]),
                                      {"kind": which, "hist": h, "step": step})
                else:
                    inj.begin(("fill", 1))
                    try:
                        call(k, p)
                    except precrec.Injected:
                        pass
                    inj.arm = None
                got_cp = {str(key): proj(key) for key in (2, 3)}
                chk.count()
                if got_cp != {kk: vv for kk, vv in a["cp"].items()}:
                    chk.violation("%s/projection" % which, "cached precisions %s differ from the spec's %s after %s" % (got_cp, a["cp"], json.dumps(h["h"][:step + 1])),
                                  {"kind": which, "hist": h, "step": step})
            n_ok += 1
            chk.distinct(which + json.dumps(h), True)
    finally:
        inj.close()
        cache.clear()
    return n_ok


# ---------------------------------------------------------------- M3: interleavings + probes vs a fresh process
PROBES = [
    ("log(7)", 64), ("log(3)", 200), ("atan(mpf(3)/7)", 80), ("cos(mpf(1)/3)", 300), ("sin(1)", 500), ("exp(mpf(2)/3)", 120),
    ("bernoulli(30)", 90), ("bernoulli(52)", 53), ("zeta(3)", 70), ("zeta(5)", 150), ("gamma(mpf(7)/3)", 100), ("psi(0, mpf(5)/3)", 60),
    ("quad(lambda x: x**3 + 1, [0, 2])", 80), ("quadgl(lambda x: exp(x), [0, 1])", 60), ("+pi", 333), ("+euler", 100),
    ("besselj(2, mpf(7)/2)", 70), ("erf(mpf(1)/3)", 90), ("hyp1f1(2, 3, mpf(1)/2)", 60), ("coulombc(2, mpf(1)/2)", 53),
    ("log(mpf(10), 3)", 400), ("lu_solve(matrix([[2,1],[1,3]]), [1,2])[0]", 75), ("fib(100)", 53), ("ellipk(mpf(1)/3)", 90),
    ("cos(mpf(1)/3)", 380), ("exp(mpf(1)/7)", 1000), ("polylog(2, mpf(1)/3)", 64), ("stieltjes(1)", 53),
]


def probe_values(mpmath):
    """raw outcome of every probe at its precision (in this process, current cache state)"""
    mp = mpmath.mp
    ns = corpus.namespace(mpmath, mp)
    out = []
    for src, p in PROBES:
        mp.prec = p
        try:
            v = eval(src, ns)
            v = v._mpf_ if hasattr(v, "_mpf_") else (v._mpc_ if hasattr(v, "_mpc_") else None)
        except Exception as e:
            v = None
        out.append(v)
    mp.prec = 53
    return out


def fresh_probe_values():
    code = ("import sys, json; sys.path.insert(0, %r); sys.path.insert(0, %r)\n"
            "import mpmath\nfrom harness.checks import c33\n"
            "print(json.dumps([list(map(lambda t: list(map(int, t)) if isinstance(t[0], int) else [list(map(int, u)) for u in t], [v]))[0] if v else None for v in c33.probe_values(mpmath)]))"
            % (core.REPO, core.VERIF))
    pr = subprocess.run([sys.executable, "-c", code], capture_output=True, text=True, env=dict(os.environ, MPMATH_NOGMPY="1", PYTHONHASHSEED="0"))
    if pr.returncode != 0:
        raise tlc.MachineryError("fresh probe process failed: " + pr.stderr[-1500:])
    vals = json.loads(pr.stdout.strip().splitlines()[-1])
    def tup(v):
        if v is None:
            return None
        if isinstance(v[0], list):
            return tuple(tuple(u) for u in v)
        return tuple(v)
    return [tup(v) for v in vals]


def enc_val(v):
    if isinstance(v[0], tuple):
        return enc.c(v)
    return enc.f(v)


def dirty_histories(chk, mpmath, rng, nhist):
    """run random documentation blocks at random precisions with faults, then evaluate the probes"""
    from . import c11
    sw = c11.Sweep(mpmath, rng.randint(0, 10 ** 9))
    blocks = c11.select_blocks(chk, mpmath, 1.0)
    results = []
    try:
        for h in range(nhist):
            picked = [rng.choice(blocks) for _ in range(chk.pick(6, 14))]
            descr = []
            for name, stmts in picked:
                P = rng.choice([20, 40, 53, 64, 100, 150, 250, 400])
                sw.run_block("mp", name, stmts[:8], P, inject=rng.choice([0, 1]))
                descr.append([name, P])
            # an aborted computation of a memoised constant at high precision (exception at the start of its
            # fixed-point routine), as C33 quantifies over computations aborted at any point
            from . import c17
            for cname in rng.sample(["pi", "ln2", "ln10", "e", "euler", "catalan"], 3):
                cell = c17.memo_cell(mpmath.libmp, cname)
                sw.inj.add_code("fixed:" + cname, cell.__code__)
                sw.inj.begin(("fixed:" + cname, 1))
                try:
                    getattr(mpmath.libmp, "mpf_" + cname)(max(cell.memo_prec, 50) + rng.randint(100, 2000), "n")
                except precrec.Injected:
                    pass
                except Exception:
                    pass
                sw.inj.arm = None
                descr.append(["abort-constant", cname])
            sw.traces = []
            results.append((descr, probe_values(mpmath)))
    finally:
        sw.close()
    return results


def main():
    chk = core.Check(PROP, LEVEL)
    mpmath = core.use_repo()
    rng = random.Random(chk.seed * 8191 + 33)
    res = tlc.run_model("MatrixLU", "MatrixLU_mc.cfg", timeout=3600)
    chk.add_model(res, "MatrixLU/MatrixLU_mc.cfg")
    if not res["ok"]:
        if res["violated"]:
            chk.violation("model/MatrixLU/" + res["violated"], "LU cache design model violates " + res["violated"], {"cfg": "MatrixLU_mc.cfg"})
        else:
            chk.machinery("MatrixLU_mc: TLC failed\n" + res["output"][-2000:])
    ntr = 0
    hs = histories(chk, "MatrixLU", chk.pick("MatrixLU_paths_quick.cfg", "MatrixLU_paths.cfg"), chk.pick(1500, 40000), rng)
    ntr += replay_lu(chk, mpmath, hs)
    chk.sample({"MatrixLU_history": hs[0]} if hs else "none")
    for which in ("logint", "zetaint"):
        hs = histories(chk, "PrecCache", "PrecCache_%s.cfg" % which, chk.pick(1200, 46095), rng)
        ntr += replay_cache(chk, mpmath, hs, which)
        chk.sample({"PrecCache_%s_history" % which: hs[0]} if hs else "none")
    # M3
    base = fresh_probe_values()
    events, meta = [], {}
    for descr, vals in dirty_histories(chk, mpmath, rng, chk.pick(4, 60)):
        for (src, p), v0, v1 in zip(PROBES, base, vals):
            chk.count()
            if v0 is None or v1 is None:
                if (v0 is None) != (v1 is None):
                    chk.violation("probe/raises", "probe %s at prec %d raises only in one of fresh/dirty state after %s" % (src, p, descr), {"probe": src, "p": p, "history": descr})
                continue
            eid = len(events)
            events.append(enc.event(eid, "near", [enc_val(v0), enc_val(v1)], p, "n", enc.sym("none"), pb=0, x={"k": 2}))
            meta[eid] = {"probe": src, "p": p, "history": descr}
            chk.distinct((src, p, json.dumps(descr)), True)
    bad = tlc.judge(events, tag=PROP, shards=8)
    ntr += 1
    for i, cl in sorted(bad.items()):
        if "post" in cl:
            m = meta[i]
            chk.violation("probe/%s" % m["probe"].split("(")[0], "probe %s at prec %d differs from a fresh process by more than 2 ulps after history %s" % (m["probe"], m["p"], m["history"]), m)
    chk.add_traces(ntr)
    chk.cov["rule"] = ("every history of the cache models up to the depth bound replayed on real objects (projection + value vs empty caches); "
                       "plus seeded dirty histories of documentation blocks with faults followed by probes compared with a fresh process")
    chk.assumptions += ["rounding-level tolerance = 2 ulps for probes of routines not documented as correctly rounded",
                        "cache projections read from module dicts / matrix._LU"]
    chk.finish()


def replay(path):
    print(open(path).read()[:3000])
    raise SystemExit(0)
