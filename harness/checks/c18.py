"""C18 -- gamma-family functions are accurate to the working precision.

[E] at exactly known points: gamma / factorial / rgamma at integers (Oblig!Fact), poles (rgamma = 0
exactly, gamma raises), binomial / rf / ff at integers, harmonic(n) = sum 1/k, digamma differences
psi(n+1) - psi(1) = H_n, superfac / hyperfac / barnesg at integers (integer products).
[R] elsewhere: SameReal over precisions and the identities Gamma(x+1) = x Gamma(x),
psi(x+1) = psi(x) + 1/x, polygamma shift, B(a,b) Gamma(a+b) = Gamma(a) Gamma(b),
loggamma(x+1) - loggamma(x) = log x (log from the library at higher precision)."""
from .. import ex, specfun as sf
from . import oblcommon

PROP = "C18"; LEVEL = "exploration"
Fr = sf.Fr


def away(rng, f):
    """arguments away from the poles at non-positive integers"""
    while True:
        x = f(rng)
        if x.denominator == 1 and x <= 0:
            continue
        if abs(x - round(x)) < Fr(1, 64) and x < 0:
            continue
        return x


TABLE = [
    ("gamma", sf.A(lambda r: away(r, lambda r: sf.rq(r, -6, 30))), sf.F1("gamma")),
    ("rgamma", sf.A(lambda r: sf.rq(r, -6, 30)), sf.F1("rgamma")),
    ("loggamma", sf.A(lambda r: sf.posq(r, 60)), sf.F1("loggamma")),
    ("factorial", sf.A(lambda r: away(r, lambda r: sf.rq(r, -5, 30) + 1) - 1), sf.F1("factorial")),
    ("gamma-complex", sf.A(sf.cq), sf.F1("gamma")),
    ("loggamma-complex", sf.A(lambda r: (sf.posq(r, 6), sf.rq(r, -6, 6))), sf.F1("loggamma")),
    ("beta", sf.A(lambda r: sf.posq(r, 9), lambda r: sf.posq(r, 9)), sf.F1("beta")),
    ("binomial", sf.A(lambda r: sf.posq(r, 20), lambda r: sf.posq(r, 6)), sf.F1("binomial")),
    ("rf", sf.A(lambda r: sf.posq(r, 9), lambda r: sf.posq(r, 5)), sf.F1("rf")),
    ("ff", sf.A(lambda r: sf.posq(r, 9) + 6, lambda r: sf.posq(r, 5)), sf.F1("ff")),
    ("digamma", sf.A(lambda r: away(r, lambda r: sf.rq(r, -6, 40))), sf.F1("digamma")),
    ("polygamma1", sf.A(lambda r: sf.posq(r, 30)), lambda mp, a: mp.polygamma(1, sf.q2m(mp, a[0]))),
    ("polygamma3", sf.A(lambda r: sf.posq(r, 30)), lambda mp, a: mp.polygamma(3, sf.q2m(mp, a[0]))),
    ("harmonic", sf.A(lambda r: sf.posq(r, 40)), sf.F1("harmonic")),
    ("barnesg", sf.A(lambda r: sf.posq(r, 9)), sf.F1("barnesg")),
    ("superfac", sf.A(lambda r: sf.posq(r, 7)), sf.F1("superfac")),
    ("hyperfac", sf.A(lambda r: sf.posq(r, 7)), sf.F1("hyperfac")),
    ("fac2", sf.A(lambda r: sf.posq(r, 20)), sf.F1("fac2")),
    ("gammaprod", sf.A(lambda r: sf.posq(r, 9), lambda r: sf.posq(r, 9)), lambda mp, a: mp.gammaprod([sf.q2m(mp, a[0])], [sf.q2m(mp, a[1])])),
]


def gen(chk, mpmath, rng):
    mp = mpmath.mp
    for k in [k for k in chk.known if k.get("status") == "known" and "rep" in k]:
        rep = k["rep"]; p = rep["p"]
        x = Fr(rep["x"])
        mp.prec = p; X = sf.q2m(mp, x); y1 = getattr(mp, rep["f"])(X)
        mp.prec = 2 * p + 40; y2 = getattr(mp, rep["f"])(X); mp.prec = p
        yield sf.close(y1, y2, 8, p), {"pinned": k["key"], "key": "samereal/%s/p>=600" % rep["f"], "f": rep["f"], "args": [rep["x"]], "p": p, "what": "pinned representative"}
    # precision sweep: the gamma kernels choose Taylor / Stirling / recurrence regimes and series lengths from the working precision,
    # so every precision band is visited at a few fixed arguments (before anything else fills the coefficient caches)
    step = chk.pick(61, 17)
    for fname in ("gamma", "loggamma", "rgamma"):
        # ... arguments far from the integers (where the Taylor polynomials about integers are weakest) but not the exact half-integers
        xs = [Fr(2 * rng.randint(1, 12) + 1, 2) + rng.choice([1, -1]) * Fr(1, 64), Fr(rng.randint(3, 40), 8), Fr(rng.randint(41, 200), 8) * rng.choice([1, -1]) + Fr(1, 3)]
        for P in range(40 + rng.randint(0, step - 1), 1400, step):
            for item in sf.sweep(mpmath, fname + "-precision", sf.F1(fname), [xs[0], rng.choice(xs[1:])], P, 8, PROP):
                yield item
    for item in sf.samereal(chk, mpmath, rng, TABLE, 8, chk.pick(300, 12000), PROP, hiprec=0.2):
        yield item
    for i in range(chk.pick(260, 8000)):
        p = rng.choice([20, 53, 53, 100, 200]); mp.prec = p
        c = rng.random()
        try:
            if c < 0.2:
                n = rng.randint(1, 60)
                f = rng.choice(["gamma", "factorial", "rgamma"])
                if f == "gamma":
                    yield ex.rel_close(mp.gamma(n), ex.seqn("fact", n - 1), 8, p), {"key": "exact/gamma(int)", "n": n, "p": p, "what": "gamma(n) != (n-1)! within tolerance"}
                elif f == "factorial":
                    yield ex.rel_close(mp.factorial(n), ex.seqn("fact", n), 8, p), {"key": "exact/factorial(int)", "n": n, "p": p, "what": "factorial(n) != n! within tolerance"}
                else:
                    yield ex.rel_close(ex.mul(mp.rgamma(n), ex.seqn("fact", n - 1)), 1, 8, p), {"key": "exact/rgamma(int)", "n": n, "p": p, "what": "rgamma(n) * (n-1)! != 1 within tolerance"}
            elif c < 0.3:
                n = -rng.randint(0, 30)
                r = mp.rgamma(n)
                try:
                    mp.gamma(n); raised = False
                except (ValueError, ZeroDivisionError):
                    raised = True
                yield ex.allj(ex.eq(r, 0), {"j": "true"} if raised else {"j": "false"}), {"key": "poles", "n": n, "p": p, "what": "rgamma at a pole is not exactly 0, or gamma does not raise there"}
            elif c < 0.4:
                n = rng.randint(1, 80)
                yield ex.rel_close(mp.harmonic(n), ex.sumk(1, n, ex.div(1, ex.K)), 8, p), {"key": "exact/harmonic(int)", "n": n, "p": p, "what": "harmonic(n) != sum 1/k"}
                yield ex.rel_close(ex.sub(mp.digamma(n + 1), mp.digamma(1)), ex.sumk(1, n, ex.div(1, ex.K)), 10, p), {"key": "exact/digamma-difference", "n": n, "p": p, "what": "psi(n+1) - psi(1) != H_n"}
            elif c < 0.5:
                n = rng.randint(0, 10)
                import math
                sup = 1; hyp = 1
                for k in range(1, n + 1):
                    sup *= math.factorial(k); hyp *= k ** k
                # integer products (the products themselves are plain integer arithmetic; compared exactly by TLC)
                yield ex.allj(ex.rel_close(mp.superfac(n), sup, 8, p), ex.rel_close(mp.hyperfac(n), hyp, 8, p),
                              ex.rel_close(mp.barnesg(n + 2), sup, 8, p)), {"key": "exact/superfac-hyperfac-barnesg(int)", "n": n, "p": p,
                                                                             "what": "superfac / hyperfac / barnesg at an integer differs from the integer product"}
            elif c < 0.65:
                x = away(rng, lambda r: sf.rq(r, -6, 25)); X = sf.q2m(mp, x)
                yield ex.le(ex.ab(ex.sub(mp.gamma(X + 1), ex.mul(ex.Qf(x), mp.gamma(X)))), ex.mul(ex.pow2(10 - p), ex.ab(mp.gamma(X + 1)))), \
                    {"key": "identity/gamma-shift", "x": str(x), "p": p, "what": "Gamma(x+1) != x Gamma(x) within tolerance"}
            elif c < 0.8:
                x = sf.posq(rng, 30); X = sf.q2m(mp, x)
                m = rng.choice([0, 1, 2, 3])
                lhs = mp.polygamma(m, X + 1); rhs0 = mp.polygamma(m, X)
                corr = ex.div(ex.mul((-1) ** m, ex.seqn("fact", m)), ex.powi(ex.Qf(x), m + 1))
                yield ex.le(ex.ab(ex.sub(lhs, ex.add(rhs0, corr))), ex.mul(ex.pow2(10 - p), ex.mx(ex.ab(lhs), ex.ab(rhs0)))), \
                    {"key": "identity/polygamma-shift", "x": str(x), "m": m, "p": p, "what": "psi^(m)(x+1) != psi^(m)(x) + (-1)^m m!/x^(m+1)"}
            elif c < 0.9:
                a, b = sf.posq(rng, 9), sf.posq(rng, 9); Am, Bm = sf.q2m(mp, a), sf.q2m(mp, b)
                lhs = ex.mul(mp.beta(Am, Bm), mp.gamma(Am + Bm)); rhs = ex.mul(mp.gamma(Am), mp.gamma(Bm))
                yield ex.le(ex.ab(ex.sub(lhs, rhs)), ex.mul(ex.pow2(11 - p), ex.ab(rhs))), {"key": "identity/beta-gamma", "a": str(a), "b": str(b), "p": p, "what": "B(a,b) Gamma(a+b) != Gamma(a) Gamma(b)"}
            else:
                x = sf.posq(rng, 40); X = sf.q2m(mp, x)
                d = mp.loggamma(X + 1) - mp.loggamma(X)
                mp.prec = 2 * p + 30; L = mp.log(X); mp.prec = p
                yield ex.le(ex.ab(ex.sub(d, L)), ex.mul(ex.pow2(10 - p), ex.mx(ex.ab(mp.loggamma(X + 1)), ex.ab(L), 1))), {"key": "identity/loggamma-shift", "x": str(x), "p": p,
                                                                                                                           "what": "loggamma(x+1) - loggamma(x) != log x"}
        except (ZeroDivisionError, ValueError, TypeError):
            yield None


def main():
    oblcommon.run(PROP, LEVEL, gen,
                  "seeded rational (and some complex) arguments in a moderate domain away from poles; distinct = (function or identity, arguments, precision)",
                  ["[R] checks are necessary conditions: an error identical at both precisions and commuting with the recurrences is not detected",
                   "moderate domain 2^-6..60; regimes where the unchanged library is known not to meet 2^(8-p) (complex fac2, see DESIGN 5.2) are not sampled"])


replay = oblcommon.replay
