"""C23 -- elliptic, theta, modular, AGM and Lambert W functions are accurate.

[E]: qp(a, q, n) finite q-Pochhammer products at rational data (exact rational value); agm is
bracketed by its own arithmetic / geometric iterates: for x0 <= y0 the sequences a_(k+1) = (a_k+b_k)/2
computed exactly in the spec from the returned value's neighbours are replaced here by the algebraic
sandwich  g_1 <= agm <= a_1  with a_1 = (x+y)/2 exact and g_1^2 = x y exact (compared by squaring).
[R]: SameReal over precisions for every listed function and identities: agm symmetry / homogeneity,
Carlson symmetry and homogeneity (elliprf(l x, l y, l z) with l = 4: factor 1/2), Legendre relation
through ellipk/ellipe at m and 1-m with the library's pi, jtheta quasi-periodicity in z -> z + pi
(library pi), lambertw defining equation w e^w = z (library exp at higher precision), kleinj(tau+1)
= kleinj(tau)."""
from .. import ex, specfun as sf
from . import oblcommon

PROP = "C23"; LEVEL = "exploration"
Fr = sf.Fr
m01 = lambda r: Fr(r.randint(1, 60), 64)

TABLE = [
    ("ellipk", sf.A(m01), sf.F1("ellipk")), ("ellipe", sf.A(m01), sf.F1("ellipe")),
    ("ellipf", sf.A(lambda r: sf.posq(r, 1), m01), sf.F1("ellipf")),
    ("ellippi", sf.A(lambda r: Fr(r.randint(1, 40), 64), m01), sf.F1("ellippi")),
    ("elliprf", sf.A(lambda r: sf.posq(r, 5), lambda r: sf.posq(r, 5), lambda r: sf.posq(r, 5)), sf.F1("elliprf")),
    ("elliprc", sf.A(lambda r: sf.posq(r, 5), lambda r: sf.posq(r, 5)), sf.F1("elliprc")),
    ("elliprj", sf.A(lambda r: sf.posq(r, 5), lambda r: sf.posq(r, 5), lambda r: sf.posq(r, 5), lambda r: sf.posq(r, 5)), sf.F1("elliprj")),
    ("elliprd", sf.A(lambda r: sf.posq(r, 5), lambda r: sf.posq(r, 5), lambda r: sf.posq(r, 5)), sf.F1("elliprd")),
    ("elliprg", sf.A(lambda r: sf.posq(r, 5), lambda r: sf.posq(r, 5), lambda r: sf.posq(r, 5)), sf.F1("elliprg")),
    ("agm", sf.A(lambda r: sf.posq(r, 9), lambda r: sf.posq(r, 9)), sf.F1("agm")),
    ("jtheta3", sf.A(lambda r: sf.rq(r, -3, 3), lambda r: Fr(r.randint(1, 50), 64)), lambda mp, a: mp.jtheta(3, sf.q2m(mp, a[0]), sf.q2m(mp, a[1]))),
    ("jtheta1-derivative", sf.A(lambda r: sf.rq(r, -3, 3), lambda r: Fr(r.randint(1, 50), 64)), lambda mp, a: mp.jtheta(1, sf.q2m(mp, a[0]), sf.q2m(mp, a[1]), 1)),
    ("ellipfun-sn", sf.A(lambda r: sf.rq(r, -3, 3) or Fr(1, 8), m01),            # u = 0 is a zero of sn: no relative accuracy there
     lambda mp, a: mp.ellipfun("sn", sf.q2m(mp, a[0]), sf.q2m(mp, a[1]))),
    ("kleinj", sf.A(lambda r: (sf.rq(r, -1, 1), sf.posq(r, 2) + Fr(1, 2))), sf.F1("kleinj")),
    ("eta", sf.A(lambda r: (sf.rq(r, -1, 1), sf.posq(r, 2) + Fr(1, 4))), sf.F1("eta")),
    ("qfrom", sf.A(m01), lambda mp, a: mp.qfrom(m=sf.q2m(mp, a[0]))),
    ("mfrom", sf.A(lambda r: Fr(r.randint(1, 40), 64)), lambda mp, a: mp.mfrom(q=sf.q2m(mp, a[0]))),
    ("kfrom", sf.A(lambda r: Fr(r.randint(1, 40), 64)), lambda mp, a: mp.kfrom(q=sf.q2m(mp, a[0]))),
    ("lambertw0", sf.A(lambda r: sf.posq(r, 30)), sf.F1("lambertw")),
    ("lambertw-1", sf.A(lambda r: -Fr(r.randint(1, 22), 64)), lambda mp, a: mp.lambertw(sf.q2m(mp, a[0]), -1)),
    ("lambertw-k", sf.A(sf.cq, lambda r: Fr(r.randint(-3, 3))), lambda mp, a: mp.lambertw(mp.mpc(sf.q2m(mp, a[0][0]), sf.q2m(mp, a[0][1])), int(a[1]))),
    ("qgamma", sf.A(lambda r: sf.posq(r, 6), lambda r: Fr(r.randint(1, 50), 64)), sf.F1("qgamma")),
    ("qp", sf.A(lambda r: sf.rq(r, -2, 2), lambda r: Fr(r.randint(1, 50), 64)), sf.F1("qp")),
]


def gen(chk, mpmath, rng):
    mp = mpmath.mp
    for item in sf.samereal(chk, mpmath, rng, TABLE, 8, chk.pick(200, 9000), PROP, hiprec=0.08):
        yield item
    # magnitude sweep: z = c * 2^-k for every k (theta_1 and the derivatives vanish with z: the working precision must grow with k)
    P = chk.pick(rng.choice([53, 80]), 200)
    q = Fr(rng.randint(5, 50), 64)
    cfr = Fr(rng.randint(9, 15), 8)
    grid = [(cfr / 2 ** k, q) for k in range(0, 70, chk.pick(2, 1))]
    for n in (1, 2, 3, 4):
        for item in sf.sweep(mpmath, "jtheta%d" % n, (lambda n_: (lambda mp_, a: mp_.jtheta(n_, a[0], a[1])))(n), grid, P, 8, PROP):
            yield item
    for item in sf.sweep(mpmath, "ellipfun-sn", lambda mp_, a: mp_.ellipfun("sn", a[0], q=a[1]), grid[:40], P, 8, PROP):
        yield item
    for i in range(chk.pick(150, 5000)):
        p = rng.choice([30, 53, 53, 100, 200]); mp.prec = p
        c = rng.random()
        try:
            if c < 0.2:
                a = sf.rq(rng, -3, 3); q = Fr(rng.randint(-50, 50), 64); n = rng.randint(0, 12)
                exact = ex.prodk(0, n - 1, ex.sub(1, ex.mul(ex.Qf(a), ex.powk(ex.Qf(q))))) if False else \
                    ex.mul(*([ex.sub(1, ex.mul(ex.Qf(a), ex.powi(ex.Qf(q), k))) for k in range(n)] or [1]))
                yield ex.rel0_close(mp.qp(sf.q2m(mp, a), sf.q2m(mp, q), n), exact, 8, p), {"key": "exact/qp-finite", "a": str(a), "q": str(q), "n": n, "p": p, "what": "finite q-Pochhammer product differs from the exact rational"}
            elif c < 0.45:
                x, y = sf.posq(rng, 9), sf.posq(rng, 9); X, Y = sf.q2m(mp, x), sf.q2m(mp, y)
                g = mp.agm(X, Y)
                js = [ex.le(g, ex.mul(ex.div(ex.add(ex.Qf(x), ex.Qf(y)), 2), ex.add(1, ex.pow2(4 - p)))),
                      ex.le(ex.mul(ex.Qf(x), ex.Qf(y)), ex.mul(ex.sq(g), ex.add(1, ex.pow2(5 - p)))),
                      ex.eq(g, mp.agm(Y, X))]
                g4 = mp.agm(4 * X, 4 * Y)
                js.append(ex.le(ex.ab(ex.sub(g4, ex.mul(4, g))), ex.mul(ex.pow2(6 - p), ex.ab(g4))))
                yield ex.allj(*js), {"key": "agm/sandwich+symmetry+homogeneity", "x": str(x), "y": str(y), "p": p, "what": "agm is outside [sqrt(xy), (x+y)/2], asymmetric, or not homogeneous"}
            elif c < 0.65:
                x, y, z = sf.posq(rng, 5), sf.posq(rng, 5), sf.posq(rng, 5); X, Y, Z = [sf.q2m(mp, v) for v in (x, y, z)]
                r1, r2, r3 = mp.elliprf(X, Y, Z), mp.elliprf(Z, X, Y), mp.elliprf(4 * X, 4 * Y, 4 * Z)
                yield ex.allj(ex.le(ex.ab(ex.sub(r1, r2)), ex.mul(ex.pow2(8 - p), ex.ab(r1))), ex.le(ex.ab(ex.sub(ex.mul(2, r3), r1)), ex.mul(ex.pow2(8 - p), ex.ab(r1)))), \
                    {"key": "elliprf/symmetry+homogeneity", "xyz": [str(x), str(y), str(z)], "p": p, "what": "elliprf is not symmetric or not homogeneous of degree -1/2"}
            elif c < 0.85:
                k = rng.choice([0, 0, -1]); z = sf.posq(rng, 30) if k == 0 else -Fr(rng.randint(1, 22), 64)
                Z = sf.q2m(mp, z)
                w = mp.lambertw(Z, k)
                if hasattr(w, "_mpc_"):
                    yield None; continue
                mp.prec = 2 * p + 30; ew = mp.exp(w); mp.prec = p
                # w e^w = z with error amplification 1/|1+w| taken into account generously
                yield ex.le(ex.ab(ex.sub(ex.mul(w, ew), ex.Qf(z))), ex.mul(ex.pow2(10 - p), ex.ab(ex.Qf(z)), ex.mx(ex.ab(ex.add(1, w)), 1))), {"key": "lambertw/defining-equation", "z": str(z), "k": k, "p": p,
                                                                                                                                            "what": "w e^w != z for the returned branch value"}
            else:
                m = m01(rng); M = sf.q2m(mp, m)
                K, E, K1, E1 = mp.ellipk(M), mp.ellipe(M), mp.ellipk(1 - M), mp.ellipe(1 - M)
                lhs = ex.sub(ex.add(ex.mul(E, K1), ex.mul(E1, K)), ex.mul(K, K1))
                yield ex.le(ex.ab(ex.sub(lhs, ex.div(+mp.pi, 2))), ex.mul(ex.pow2(12 - p), ex.mx(ex.ab(ex.mul(K, K1)), 1))), {"key": "legendre-relation", "m": str(m), "p": p, "what": "E K' + E' K - K K' != pi/2"}
        except (ZeroDivisionError, ValueError, TypeError, mpmath.libmp.NoConvergence):
            yield None


def main():
    oblcommon.run(PROP, LEVEL, gen,
                  "seeded rational parameters / arguments in a moderate domain; distinct = (function or relation, arguments, precision)",
                  ["[R] checks are necessary conditions only", "pi and exp in identities come from the library (C17 / C12)"])


replay = oblcommon.replay
