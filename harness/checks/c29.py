"""C29 -- root finders return genuine roots, in the documented order.

[E]: functions are polynomials with rational coefficients and planted rational / Gaussian-rational
roots, so f(x) is exact on the returned dyadics: verify=True => |f(x)|^2 <= tol; bracketing solvers
return a point of the bracket; mnewton converges from nearby starts to roots of multiplicity m with
|x - r| <= 2^(4 - p/m)|r|; polyroots returns exactly deg values whose residual is consistent with
the returned error estimate, real roots first and conjugates adjacent; multiplicity() equals the
planted one.  NoConvergence / ValueError are allowed outcomes for the iterative solvers."""
import fractions
from .. import ex
from . import oblcommon

PROP = "C29"; LEVEL = "exploration"
Fr = fractions.Fraction


def poly_from_roots(roots):
    cs = [Fr(1)]
    for r in roots:
        new = [Fr(0)] * (len(cs) + 1)
        for k, c in enumerate(cs):
            new[k + 1] += c
            new[k] -= c * r
        cs = new
    return cs          # low -> high


def gen(chk, mpmath, rng):
    mp = mpmath.mp
    pinned = [k for k in chk.known if k.get("status") == "known" and "rep" in k]
    for i in range(chk.pick(220, 6000) + len(pinned)):
        p = rng.choice([53, 53, 80, 120])
        mp.prec = p
        kind = rng.random() if i < chk.pick(220, 6000) else 0.99
        try:
            if kind < 0.4:
                roots = sorted(set(Fr(rng.randint(-12, 12), rng.choice([1, 2, 4])) for _ in range(rng.randint(1, 4))))
                cs = poly_from_roots(roots)
                f = lambda x: sum((mp.mpf(c.numerator) / c.denominator) * x ** k for k, c in enumerate(cs))
                r0 = rng.choice(roots)
                solver = rng.choice(["secant", "mnewton", "halley", "muller", "illinois", "pegasus", "anderson", "ridder", "bisect", "anewton"])
                bracket = solver in ("illinois", "pegasus", "anderson", "ridder", "bisect")
                gap = min([abs(r0 - r) for r in roots if r != r0] or [Fr(4)])
                if bracket:
                    lo, hi = r0 - gap / 3, r0 + gap / 4
                    x0 = (mp.mpf(lo.numerator) / lo.denominator, mp.mpf(hi.numerator) / hi.denominator)
                else:
                    st = r0 + gap / rng.choice([5, 7, -6])
                    x0 = mp.mpf(st.numerator) / st.denominator
                x = mp.findroot(f, x0, solver=solver, verify=True)
                if hasattr(x, "_mpc_"):
                    fx = ex.cnorm2(ex.cpoly([ex.Qf(c) for c in cs], ex.c_of(x)))
                else:
                    fx = ex.sq(ex.poly([ex.Qf(c) for c in cs], x))
                tol = mp.eps * 2 ** 10
                js = [ex.le(fx, tol)]
                if bracket and not hasattr(x, "_mpc_"):
                    js += [ex.le(ex.Qf(lo), x), ex.le(x, ex.Qf(hi))]
                yield ex.allj(*js), {"key": "findroot/" + solver, "roots": [str(r) for r in roots], "start": str(x0), "p": p, "what": "findroot(verify=True) returned x with |f(x)|^2 > tol, or outside the bracket"}
            elif kind < 0.6:
                m = rng.randint(2, 4)
                r0 = Fr(rng.randint(-6, 6), rng.choice([1, 2])) or Fr(1)
                other = r0 + rng.randint(3, 6)
                cs = poly_from_roots([r0] * m + [other])
                f = lambda x: sum((mp.mpf(c.numerator) / c.denominator) * x ** k for k, c in enumerate(cs))
                st = r0 + Fr(1, rng.choice([7, -9, 11]))
                x = mp.findroot(f, mp.mpf(st.numerator) / st.denominator, solver="mnewton", verify=False)
                if hasattr(x, "_mpc_"):
                    yield None; continue
                bits = 4 - p // m
                yield ex.le(ex.ab(ex.sub(x, ex.Qf(r0))), ex.mul(ex.pow2(bits), ex.mx(ex.ab(ex.Qf(r0)), 1))), {"key": "mnewton/multiple", "root": str(r0), "m": m, "p": p,
                                                                                                               "what": "mnewton did not converge to the multiple root within 2^(4-p/m)"}
                mm = mp.multiplicity(f, mp.mpf(r0.numerator) / r0.denominator)
                yield ex.eq(int(mm), m), {"key": "multiplicity", "root": str(r0), "m": m, "p": p, "what": "multiplicity() differs from the planted multiplicity"}
            else:
                # polyroots: real coefficients with real roots and conjugate pairs (pairs may share |Im|)
                reals = [Fr(rng.randint(-9, 9), rng.choice([1, 2])) for _ in range(rng.randint(0, 3))]
                reals = sorted(set(reals))
                if rng.random() < 0.3:
                    # roots of widely different magnitude: a tiny one, moderate ones and a large one
                    reals = sorted(set([Fr(rng.randint(1, 99), 2 ** rng.randint(38, 50)) * rng.choice([1, -1]), Fr(rng.randint(1, 9), 2), Fr(rng.randint(50, 900))]))
                pairs = []
                for _ in range(rng.randint(0, 2)):
                    pairs.append((Fr(rng.randint(-6, 6)), Fr(rng.choice([1, 2, 3, 5]))))
                pairs = list(dict.fromkeys(pairs))
                pin = None
                if i >= chk.pick(220, 6000):
                    pin = pinned[i - chk.pick(220, 6000)]
                    reals = [Fr(v) for v in pin["rep"]["reals"]]; pairs = [(Fr(a), Fr(b)) for a, b in pin["rep"]["pairs"]]; p = 53; mp.prec = 53
                if not reals and not pairs:
                    continue
                cs = poly_from_roots(reals)
                for a, b in pairs:        # (x - a)^2 + b^2
                    quad = [a * a + b * b, -2 * a, Fr(1)]
                    new = [Fr(0)] * (len(cs) + 2)
                    for k, c in enumerate(cs):
                        for j, q in enumerate(quad):
                            new[k + j] += c * q
                    cs = new
                deg = len(cs) - 1
                coeffs = [mp.mpf(c.numerator) / c.denominator for c in reversed(cs)]
                roots, err = mp.polyroots(coeffs, maxsteps=200, extraprec=p + 40, error=True)
                if len(roots) != deg:
                    yield {"j": "false"}, {"key": "polyroots/count", "deg": deg, "got": len(roots), "p": p, "what": "polyroots did not return exactly deg roots"}; continue
                js = []
                # residual consistent with the error estimate: |p(r)| <= (err + 2^(10-p)|r|) * |p'|-scale  (scale: sum |c_k||r|^k * deg)
                for r in roots:
                    z = ex.c_of(r)
                    scale = ex.R(ex.add(*[ex.mul(ex.ab(ex.Qf(c)), k + 1) for k, c in enumerate(cs)]))
                    rmag = ex.R(ex.add(ex.ab(z[0]), ex.ab(z[1]), 1))
                    bound = ex.mul(ex.add(err, ex.pow2(10 - p)), scale, ex.powi(rmag, deg))
                    pz = ex.cpoly([ex.Qf(c) for c in cs], z)
                    js.append(ex.le(ex.cnorm2(pz), ex.sq(bound)))
                    # first-order distance to the nearest root |p(r)/p'(r)| is consistent with the reported error (simple roots are planted)
                    dz = ex.cpoly([ex.Qf(c * k) for k, c in enumerate(cs)][1:], z) if deg >= 1 else (ex.Z(1), ex.Z(0))
                    js.append(ex.le(ex.cnorm2(pz), ex.mul(ex.sq(ex.mul(16, ex.add(err, ex.mul(ex.pow2(2 - p), rmag)))), ex.cnorm2(dz))))
                # structure: real roots first, then conjugate pairs adjacent
                isreal = [not hasattr(r, "_mpc_") or r.imag == 0 for r in roots]
                nreal = sum(isreal)
                struct_ok = all(isreal[:nreal]) and not any(isreal[nreal:]) and nreal == len(reals)
                cplx = roots[nreal:]
                for t in range(0, len(cplx) - 1, 2):
                    a_, b_ = cplx[t], cplx[t + 1]
                    js.append(ex.le(ex.cnorm2(ex.csub(ex.c_of(a_), (ex.val(b_.real), ex.neg(b_.imag)))), ex.mul(ex.pow2(2 * (12 - p)), ex.mx(ex.cnorm2(ex.c_of(a_)), 1))))
                if not struct_ok or len(cplx) % 2:
                    js.append({"j": "false"})
                sig = "/pairs-share-|Im|" if len(set(b for _, b in pairs)) < len(pairs) else ""
                if not sig and len(reals) + 2 * len(pairs) >= 6 and reals and min(abs(v) for v in reals if v) * 2 ** 30 < max(abs(v) for v in reals):
                    sig = "/wide-spread,deg>=6"
                yield ex.allj(*js), {"key": "polyroots/structure+residual" + sig, "reals": [str(r) for r in reals], "pairs": [[str(a), str(b)] for a, b in pairs], "p": p,
                                     "roots": [str(r) for r in roots], "pinned": pin["key"] if pin else None,
                                     "what": "polyroots: residual inconsistent with the error estimate, or real-first / adjacent-conjugates order violated"}
        except (ZeroDivisionError, ValueError, TypeError, mpmath.libmp.NoConvergence):
            yield None


def main():
    oblcommon.run(PROP, LEVEL, gen,
                  "polynomials with planted rational roots / conjugate pairs; every solver; distinct = (polynomial, solver, start, precision)",
                  ["NoConvergence / ValueError from an iterative solver is an allowed outcome", "residual-vs-error-estimate consistency uses a crude derivative scale (sound direction: generous)"])


replay = oblcommon.replay
