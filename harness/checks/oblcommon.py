"""Shared body of the checks whose postconditions are exact rational obligations (spec/Oblig.tla).

A generator yields (judgement, meta) pairs; meta["key"] names the site of a potential violation.
Every obligation is evaluated exactly by TLC; nothing is decided in Python."""
import json, random
from .. import core, tlc, enc, ex


def run(prop, level, generator, rule, assumptions=(), models=(), shards=None):
    chk = core.Check(prop, level)
    mpmath = core.use_repo()
    for module, cfg in models:
        res = tlc.run_model(module, cfg)
        chk.add_model(res, module + "/" + cfg)
        if not res["ok"]:
            if res["violated"]:
                chk.violation("model/%s/%s" % (module, res["violated"]), "design model violates " + res["violated"], {"cfg": cfg})
            else:
                chk.machinery(cfg + ": TLC failed\n" + res["output"][-1500:])
    rng = random.Random(chk.seed * 7907 + int(prop[1:]))
    events, meta = [], {}
    skipped = 0
    mp = mpmath.mp
    hung = None
    try:
        it = generator(chk, mpmath, rng)
        while True:
            # a library call that never returns must not turn the check into one that never ends: ten minutes for one
            # generated case (normally milliseconds to seconds) aborts the generation and is reported
            try:
                with time_limit(chk.pick(600, 1800)):
                    item = next(it)
            except StopIteration:
                break
            except TimeLimit:
                hung = dict(meta[len(events) - 1]) if events else {}
                break
            if item is None:
                skipped += 1
                ex.take_defs()
                continue
            j, m = item
            defs = ex.take_defs()
            eid = len(events)
            try:
                if isinstance(j, dict) and "op" in j:          # a raw event for another operation of spec/Judge.tla (e.g. "real")
                    j = dict(j); j["id"] = eid
                    events.append(j)
                else:
                    events.append(enc.event(eid, "oblig", [], m.get("p", 0), "n", enc.sym("none"), pb=0, x={"j": j, "defs": defs}))
            except (enc.EncodeRange, ValueError):
                skipped += 1
                continue
            meta[eid] = m
    finally:
        mp.prec = 53
        mpmath.iv.prec = 53
    bad = tlc.judge(events, tag=prop, shards=shards or tlc.NCPU)
    if hung is not None:
        chk.violation("no-return", "a library call made by the case after this one did not return within the time limit (generation aborted there): " + json.dumps(hung, default=str)[:300],
                      {"after": hung})
    for ev in events:
        m = meta[ev["id"]]
        chk.count()
        chk.distinct(json.dumps({k: v for k, v in m.items()}, sort_keys=True, default=str), not m.get("trivial", False))
    chk.add_traces(len(events))
    for ev in events[:5]:
        chk.sample({k: v for k, v in meta[ev["id"]].items()})
    # pinned representatives of known findings: reported as KNOWN-FINDING lines, never as violations
    for ev in events:
        m = meta[ev["id"]]
        if m.get("pinned"):
            entry = [k for k in chk.known if k["key"] == m["pinned"]]
            if entry:
                chk.known_line(entry[0], "post" in bad.get(ev["id"], []))
            bad.pop(ev["id"], None)
    und = sum(1 for cl in bad.values() if "undecided" in cl)
    if und:
        chk.cov["undecided"] = und
        chk.notes.append("%d events left undecided by the spec's enclosures (never reported as violations)" % und)
    for i, cl in sorted(bad.items()):
        if "post" in cl:
            m = meta[i]
            chk.violation(m["key"], m.get("what", "obligation fails") + ": " + json.dumps(m, default=str)[:300], m)
    if skipped:
        chk.notes.append("%d generated cases skipped (call raised a documented exception, non-finite value, or encoder range)" % skipped)
    chk.cov["rule"] = rule
    chk.assumptions += list(assumptions)
    chk.assumptions += ["TLC evaluates every obligation exactly on limb rationals (spec/Oblig.tla); ZLimb is refinement-checked by ZLimbCheck"]
    chk.finish()


class TimeLimit(Exception):
    pass


class time_limit:
    """with time_limit(seconds): ... raises TimeLimit in the main thread when the body runs longer (SIGALRM based)"""
    def __init__(self, seconds):
        self.seconds = seconds

    def __enter__(self):
        import signal
        def fire(signum, frame):
            raise TimeLimit()
        self.old = signal.signal(signal.SIGALRM, fire)
        signal.setitimer(signal.ITIMER_REAL, self.seconds)

    def __exit__(self, *exc):
        import signal
        signal.setitimer(signal.ITIMER_REAL, 0)
        signal.signal(signal.SIGALRM, self.old)
        return False


def replay(path):
    rec = json.load(open(path))
    print(json.dumps(rec, default=str)[:3000])
    raise SystemExit(0)


def fin(v):
    """True if the mpmath value is a finite real or complex number"""
    if hasattr(v, "_mpf_"):
        t = v._mpf_
        return t[1] != 0 or t == (0, 0, 0, 0)
    if hasattr(v, "_mpc_"):
        return all(t[1] != 0 or t == (0, 0, 0, 0) for t in v._mpc_)
    return isinstance(v, (int, float)) and v == v and abs(v) != float("inf")
