"""C41 -- Riemann zeta zeros are located and counted correctly.

Anchored [E] for small indices: the first ten zero ordinates are spec constants (6-decimal
enclosures); zetazero(n) for n <= 10 must have real part exactly 1/2 and an ordinate inside the
enclosure.  For larger n (relational): real part exactly 1/2, zetazero(-n) is the conjugate,
ordinates strictly increasing in n, nzeros(t) = n for gamma_n <= t < gamma_(n+1) (ties the two
functions together), values at two precisions approximate one real number, siegelz changes sign
across each returned zero, grampoint(n): siegeltheta(g_n) = n*pi within tolerance (library pi),
backlunds(t) consistent with nzeros.  All inequalities are decided exactly by TLC on the outputs."""
import fractions
from .. import ex
from . import oblcommon

PROP = "C41"; LEVEL = "exploration"
Fr = fractions.Fraction
ANCHORS = ["14.134725", "21.022040", "25.010858", "30.424876", "32.935062", "37.586178", "40.918719", "43.327073", "48.005151", "49.773832"]


def gen(chk, mpmath, rng):
    mp = mpmath.mp
    for n, a in enumerate(ANCHORS, 1):
        for p in (chk.pick([53], [30, 53, 100])):
            mp.prec = p
            z = mp.zetazero(n)
            lo = Fr(a) - Fr(1, 10 ** 6); hi = Fr(a) + Fr(1, 10 ** 6)
            yield ex.allj(ex.eq(z.real, Fr(1, 2)), ex.le(ex.Qf(lo), z.imag), ex.le(z.imag, ex.Qf(hi))), {"key": "anchor/zetazero", "n": n, "p": p, "what": "zetazero(n) is not 1/2 + i*gamma_n for the tabulated gamma_n"}
            zc = mp.zetazero(-n)
            yield ex.allj(ex.eq(zc.real, Fr(1, 2)), ex.eq(zc.imag, ex.neg(z.imag))), {"key": "conjugate/zetazero", "n": n, "p": p, "what": "zetazero(-n) is not the conjugate of zetazero(n)"}
    idx = sorted(set([rng.randint(11, chk.pick(150, 3000)) for _ in range(chk.pick(10, 120))] + [126, 127] ))
    for n in idx:
        p = rng.choice([53, 53, 80])
        mp.prec = p
        try:
            z1 = mp.zetazero(n); z2 = mp.zetazero(n + 1)
            g1, g2 = z1.imag, z2.imag
            js = [ex.eq(z1.real, Fr(1, 2)), ex.lt(g1, g2)]
            # nzeros at the zero, strictly between, and just below (counts tie zetazero and nzeros together)
            mid = (g1 + g2) / 2
            js.append(ex.eq(int(mp.nzeros(mid)), n))
            below = g1 - (g2 - g1) / 1024
            js.append(ex.eq(int(mp.nzeros(below)), n - 1))
            # siegelz changes sign across the zero
            s1 = mp.siegelz(g1 - (g2 - g1) / 64); s2 = mp.siegelz(g1 + (g2 - g1) / 64)
            js.append(ex.lt(ex.mul(s1, s2), 0))
            # one real number behind the values at two precisions
            mp.prec = 2 * p + 20
            zz = mp.zetazero(n)
            mp.prec = p
            js.append(ex.rel_close(g1, zz.imag, 6, p))
            yield ex.allj(*js), {"key": "relations/zetazero-nzeros", "n": n, "p": p, "what": "zetazero / nzeros / siegelz relations fail"}
        except (ValueError, mpmath.libmp.NoConvergence):
            yield None
    # Rosser-rule exception blocks (indices above 1.3e7): every zero of a block and its neighbours, from a - 1 to b + 2.
    # The ordinates must increase strictly, Z must change sign across each of them, and keep one sign between consecutive
    # ones (alternating from gap to gap), so that the run of returned zeros is a run of CONSECUTIVE zeros.
    from mpmath.functions import zetazeros as _zz
    table = _zz._ROSSER_EXCEPTIONS
    blocks = [table[2 * k] for k in range(len(table) // 2)]
    picks = [blocks[0]] + rng.sample(blocks[1:40], chk.pick(1, 12))
    for a, b in picks:
        p = 53; mp.prec = p
        try:
          with oblcommon.time_limit(chk.pick(240, 600)):            # about 0.5 s per zero on the unchanged tree
              gs = [mp.zetazero(n).imag for n in range(a - 1, b + 3)]
              js = [ex.lt(gs[i], gs[i + 1]) for i in range(len(gs) - 1)]
              mids = [mp.siegelz((gs[i] + gs[i + 1]) / 2) for i in range(len(gs) - 1)]
              js += [ex.lt(ex.mul(mids[i], mids[i + 1]), 0) for i in range(len(mids) - 1)]
              # no further sign change inside a gap: quarter points carry the sign of the midpoint
              for i in range(len(gs) - 1):
                  for t in (1, 3):
                      q = mp.siegelz(gs[i] + (gs[i + 1] - gs[i]) * t / 4)
                      js.append(ex.lt(0, ex.mul(q, mids[i])))
              js.append(ex.eq(int(mp.nzeros((gs[1] + gs[2]) / 2)), a))
              js.append(ex.eq(int(mp.nzeros((gs[-2] + gs[-1]) / 2)), b + 1))
          yield ex.allj(*js), {"key": "rosser-block", "block": [a, b], "p": p, "what": "zeros around a Rosser-rule exception block are not consecutive / increasing, or nzeros disagrees"}
        except oblcommon.TimeLimit:
            yield {"j": "false"}, {"key": "rosser-block/timeout", "block": [a, b], "p": p, "what": "zetazero / nzeros around a Rosser-rule exception block did not return within the time limit (0.5 s per zero on the unchanged tree)"}
        except (ValueError, mpmath.libmp.NoConvergence):
            yield None
    for i in range(chk.pick(15, 200)):
        p = rng.choice([53, 80]); mp.prec = p
        n = rng.randint(0, chk.pick(200, 5000))
        g = mp.grampoint(n)
        th = mp.siegeltheta(g)
        yield ex.le(ex.ab(ex.sub(th, ex.mul(n, +mp.pi))), ex.mul(ex.pow2(12 - p), ex.mx(ex.ab(th), 1))), {"key": "grampoint", "n": n, "p": p, "what": "siegeltheta(grampoint(n)) != n*pi within tolerance"}
        t = mp.mpf(rng.randint(15, 600)) + mp.mpf(rng.randint(0, 99)) / 100
        b = mp.backlunds(t)
        # N(t) = theta(t)/pi + 1 + S(t): nzeros(t) - 1 - backlunds(t) = theta(t)/pi
        nz = int(mp.nzeros(t))
        yield ex.le(ex.ab(ex.sub(ex.mul(ex.sub(ex.sub(nz, 1), b), +mp.pi), mp.siegeltheta(t))), ex.mul(ex.pow2(16 - p), ex.mx(ex.ab(mp.siegeltheta(t)), 1))), \
            {"key": "backlunds", "t": str(t), "p": p, "what": "nzeros(t) = theta(t)/pi + 1 + S(t) fails for backlunds(t)"}


def main():
    oblcommon.run(PROP, LEVEL, gen,
                  "the ten anchored zeros at several precisions; seeded indices up to a few thousand incl. the first Gram-law failure region (n = 126, 127); gram points; distinct = (index, precision)",
                  ["the ten zero ordinates are spec constants (6-decimal enclosures)", "beyond index 10 the check is relational: a consistent shift of both zetazero and nzeros would be invisible",
                   "pi is the library's own (C17)"])


replay = oblcommon.replay
