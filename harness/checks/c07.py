"""C07 -- decimal strings convert to correctly rounded binary values.

M3: literals (integer, fixed-point, exponent form, 1..1500 digits, p/q) generated from rounding
    boundaries: the exact decimal expansion of a p-bit grid point or tie point, truncated / bumped in a
    late digit, so that the literal lies within a hair of the boundary -- converted through
    libmp.from_str (all modes), mpf(str) (context precision and prec=/rounding= keywords) and
    iv.mpf(str) (floor/ceiling pair), and judged by TLC against DecPost!PostFromStr: the spec parses
    the bytes itself (DecVal), computes 5^|E| on limbs and checks the rounding cell / the side."""
import json, random
from .. import core, tlc, gen, enc

PROP = "C07"; LEVEL = "exploration"


def dec_expansion(num, e2):
    """exact decimal digits of num * 2^e2 (num > 0): returns (digits int, exp10) with value = digits * 10^exp10"""
    if e2 >= 0:
        return num << e2, 0
    return num * 5 ** (-e2), e2


def literal(rng, g, p):
    """a decimal literal near a rounding boundary of precision p; returns text"""
    c = rng.random()
    if c < 0.15:
        # plain random literal
        nd = rng.choice([1, 3, 17, 40, rng.randint(1, 300)])
        digs = str(rng.randint(10 ** (nd - 1), 10 ** nd - 1))
        E = rng.choice([0, 0, -nd, rng.randint(-120, 120), rng.randint(-450, 450)])
        txt = digs if E == 0 else "%se%d" % (digs, E)
    else:
        # boundary-driven
        nb = p + rng.choice([0, 1])                     # grid point (p bits) or tie point (p+1 bits)
        m = (1 << (nb - 1)) | rng.getrandbits(nb - 1) | (1 if nb == p + 1 else 0)
        e2 = rng.choice([rng.randint(-60, 60), rng.randint(-330, 330), -nb + rng.randint(-3, 3)])
        D, E = dec_expansion(m, e2)
        ds = str(D)
        keep = rng.choice([len(ds), max(1, len(ds) - rng.randint(1, 5)), min(len(ds), rng.choice([17, 20, 40, 60]))])
        if keep < len(ds):
            E += len(ds) - keep
            ds = ds[:keep]
        bump = rng.choice([0, 0, 1, -1])
        if bump:
            ds = str(int(ds) + bump)
        if rng.random() < 0.4 and len(ds) < 1200:
            ds = ds + "".join(rng.choice("0123456789") for _ in range(rng.choice([1, 2, 30])))   # digits below the boundary
            E -= len(ds) - keep if keep < len(ds) else 0
        form = rng.random()
        if form < 0.35 and -40 < E < 0 and len(ds) > -E:
            txt = ds[:E] + "." + ds[E:]
        elif form < 0.5 and E < 0 and -E < 60:
            txt = "0." + "0" * (-E - len(ds)) + ds if -E >= len(ds) else ds[:E] + "." + ds[E:]
        elif form < 0.6 and 0 <= E < 30:
            txt = ds + "0" * E
        else:
            k = rng.randint(0, len(ds) - 1) if rng.random() < 0.5 else 0
            if k:
                txt = "%s.%se%d" % (ds[:len(ds) - k], ds[len(ds) - k:], E + k)
            else:
                txt = "%se%d" % (ds, E)
    if rng.random() < 0.4:
        txt = "-" + txt
    elif rng.random() < 0.1:
        txt = "+" + txt
    if rng.random() < 0.1:
        txt = txt.replace("e", "E")
    return txt


def eff_exp(txt):
    """the exponent from_str works with after moving the fraction digits into the mantissa"""
    t = txt.lower().lstrip("+-")
    parts = t.split("e")
    ex = int(parts[1]) if len(parts) == 2 else 0
    mant = parts[0].split(".")
    if len(mant) == 2:
        ex -= len(mant[1].rstrip("0"))
    return ex


def main():
    chk = core.Check(PROP, LEVEL)
    mpmath = core.use_repo()
    lm, mp, iv = mpmath.libmp, mpmath.mp, mpmath.iv
    g = gen.G(chk.seed * 1000003 + 7)
    rng = g.r
    events, meta = [], {}
    n = chk.pick(1500, 60000)
    for i in range(n):
        p = rng.choice([rng.randint(1, 12), 24, 53, 53, 64, 100, 113, rng.randint(13, 300)])
        rnd = g.mode()
        txt = literal(rng, g, p)
        if rng.random() < 0.08:
            # huge exponents (approximate path of from_str)
            txt = "%se%d" % (str(rng.randint(1, 10 ** rng.randint(1, 40))), rng.choice([-1, 1]) * rng.randint(401, 5000))
        lvl = rng.choice(["libmp", "libmp", "ctor", "ctorkw", "iv"])
        try:
            if lvl == "libmp":
                outs = [(rnd, lm.from_str(txt, p, rnd))]
            elif lvl == "ctor":
                mp.prec = p; outs = [("n", mp.mpf(txt)._mpf_)]
            elif lvl == "ctorkw":
                outs = [(rnd, mp.mpf(txt, prec=p, rounding=rnd)._mpf_)]
            else:
                iv.prec = p
                ab = iv.mpf(txt)._mpi_
                outs = [("f", ab[0]), ("c", ab[1])]
        except Exception as e:
            outs = [(rnd, e)]
        finally:
            mp.prec = 53; iv.prec = 53
        for rr, out in outs:
            eid = len(events)
            try:
                o = enc.exc(out) if isinstance(out, BaseException) else enc.f(out)
                events.append(enc.event(eid, "from_str", [enc.s(txt)], p, rr, o, pb=p))
                meta[eid] = {"lit": txt if len(txt) < 120 else txt[:60] + "..." + txt[-30:], "full": txt, "p": p, "rnd": rr, "lvl": lvl, "eff_exp": eff_exp(txt)}
            except enc.EncodeRange:
                pass
    # p/q strings
    for i in range(chk.pick(150, 5000)):
        p = rng.choice([5, 24, 53, 100]); rnd = g.mode()
        pn = rng.randint(-10 ** rng.randint(1, 30), 10 ** rng.randint(1, 30)); qn = rng.randint(1, 10 ** rng.randint(1, 30))
        txt = "%d/%d" % (pn, qn)
        out = lm.from_str(txt, p, rnd)
        eid = len(events)
        events.append(enc.event(eid, "from_rational", [enc.q(pn, qn)], p, rnd, enc.f(out), pb=p))
        meta[eid] = {"lit": txt, "full": txt, "p": p, "rnd": rnd, "lvl": "libmp-frac", "eff_exp": 0}
    # pinned representatives of known findings
    pinned = {}
    for k in chk.known:
        if k.get("status") == "known" and "rep" in k:
            rep = k["rep"]
            out = lm.from_str(rep["lit"], rep["p"], rep["rnd"])
            eid = len(events)
            events.append(enc.event(eid, "from_str", [enc.s(rep["lit"])], rep["p"], rep["rnd"], enc.f(out), pb=rep["p"]))
            meta[eid] = {"lit": rep["lit"], "full": rep["lit"], "p": rep["p"], "rnd": rep["rnd"], "lvl": "pinned", "eff_exp": eff_exp(rep["lit"])}
            pinned[eid] = k
    bad = tlc.judge(events, tag=PROP)
    for eid, k in pinned.items():
        chk.known_line(k, "post" in bad.get(eid, []))
        bad.pop(eid, None)
    for ev in events:
        chk.count(); chk.distinct((meta[ev["id"]]["full"], ev["p"], ev["r"]), True)
    chk.add_traces(len(events))
    for ev in events[:4]:
        m = dict(meta[ev["id"]]); m.pop("full"); chk.sample(m)
    for i, cl in sorted(bad.items()):
        if "post" in cl:
            m = meta[i]
            sig = "/|exp|>400" if abs(m["eff_exp"]) > 400 else ""
            mm = dict(m); mm["outcome"] = events[i]["o"]
            chk.violation("from_str/%s%s" % (m["lvl"] if m["lvl"] in ("libmp-frac",) else "dec", sig),
                          "decimal conversion wrong for %r at prec %d mode %s via %s" % (m["lit"], m["p"], m["rnd"], m["lvl"]), mm)
    chk.cov["rule"] = ("literals derived from p-bit grid/tie points (exact decimal expansion, truncated or bumped in a late digit), random literals, "
                       "huge exponents, p/q strings; distinct = (literal, precision, mode)")
    chk.assumptions += ["the in-range test 10^-100..10^100 is decided conservatively from the digit count"]
    chk.finish()


def replay(path):
    chk = core.Check(PROP, LEVEL)
    mpmath = core.use_repo()
    m = json.load(open(path))["replay"]
    out = mpmath.libmp.from_str(m["full"], m["p"], m["rnd"])
    ev = enc.event(0, "from_str", [enc.s(m["full"])], m["p"], m["rnd"], enc.f(out), pb=m["p"])
    bad = tlc.judge([ev], tag=PROP)
    print(m["lit"], m["p"], m["rnd"], "->", out, "verdict", bad)
    raise SystemExit(1 if bad else 0)
