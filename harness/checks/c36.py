"""C36 -- Chebyshev and Fourier approximations reproduce what they represent.

[E]: chebyfit(f, [a, b], N) of a polynomial f of degree < N with rational coefficients returns its
coefficients to 2^(10-p) relative (scaled by the largest coefficient), and the reported error bound
(error=True) dominates the exact error at rational sample points; fourier(f, [a, b], N) of a
trigonometric polynomial built from planted coefficients recovers them; fourierval of a series with
a constant term only / evaluated at points where cos and sin are rational equals its definition."""
import fractions
from .. import ex
from . import oblcommon

PROP = "C36"; LEVEL = "exploration"
Fr = fractions.Fraction


def gen(chk, mpmath, rng):
    mp = mpmath.mp
    for i in range(chk.pick(120, 3000)):
        p = rng.choice([53, 53, 80, 120])
        mp.prec = p
        kind = rng.random()
        try:
            if kind < 0.6:
                deg = rng.randint(0, 6)
                N = deg + 1 + rng.randint(0, 3)
                cs = [Fr(rng.randint(-9, 9), rng.choice([1, 2, 4])) for _ in range(deg + 1)]
                a = Fr(rng.randint(-4, 2)); b = a + rng.randint(1, 5)
                f = lambda x: sum((mp.mpf(c.numerator) / c.denominator) * x ** k for k, c in enumerate(cs))
                poly, err = mp.chebyfit(f, [mp.mpf(a.numerator), mp.mpf(b.numerator)], N, error=True)
                got = list(reversed(list(poly)))            # low -> high
                scale = ex.R(ex.mx(*[ex.ab(ex.Qf(c)) for c in cs], 1))
                span = max(abs(a), abs(b), 1)
                js = []
                for k in range(N):
                    want = ex.Qf(cs[k]) if k < len(cs) else ex.Z(0)
                    js.append(ex.le(ex.ab(ex.sub(got[k], want)), ex.mul(ex.pow2(10 - p), scale, ex.powi(int(span) * 2 + 2, N))))
                # reported error bound dominates the true error at sample points (up to rounding)
                for t in range(3):
                    x = a + (b - a) * Fr(rng.randint(0, 16), 16)
                    trueerr = ex.ab(ex.sub(ex.poly(got, ex.Qf(x)), ex.poly([ex.Qf(c) for c in cs], ex.Qf(x))))
                    js.append(ex.le(trueerr, ex.add(ex.mul(err, 4), ex.mul(ex.pow2(12 - p), scale, ex.powi(int(span) + 1, N)))))
                yield ex.allj(*js), {"key": "chebyfit/poly", "cs": [str(c) for c in cs], "interval": [str(a), str(b)], "N": N, "p": p,
                                     "what": "chebyfit does not reproduce a polynomial of degree < N, or its error bound is below the actual error"}
            else:
                # fourier on [0, 2*pi]-free formulation: use interval [0, 1] with f(x) = a0/2... planted coefficients via exact samples is not rational;
                # instead check the defining relation of fourierval on the returned series at the endpoints, where cos = 1 and sin = 0:
                N = rng.randint(0, 4)
                ck = [rng.randint(-9, 9) for _ in range(N + 1)]
                sk = [0] + [rng.randint(-9, 9) for _ in range(N)]
                f = lambda x: sum(ck[k] * mp.cos(2 * mp.pi * k * x) + sk[k] * mp.sin(2 * mp.pi * k * x) for k in range(N + 1))
                cs, ss = mp.fourier(f, [0, 1], N)
                js = []
                for k in range(N + 1):
                    js.append(ex.abs_close(cs[k], ck[k] if k else ck[0], 14, p))
                    js.append(ex.abs_close(ss[k], sk[k], 14, p))
                v0 = mp.fourierval((cs, ss), [0, 1], 0)
                js.append(ex.abs_close(v0, ex.add(*[ex.val(c) for c in cs]), 14, p))
                yield ex.allj(*js), {"key": "fourier/trigpoly", "c": ck, "s": sk, "N": N, "p": p,
                                     "what": "fourier does not recover the coefficients of a trigonometric polynomial, or fourierval(0) != sum of cosine coefficients"}
        except (ZeroDivisionError, ValueError, TypeError):
            yield None


def main():
    oblcommon.run(PROP, LEVEL, gen,
                  "polynomials with rational coefficients on integer intervals; trigonometric polynomials with integer coefficients on [0,1]; distinct = (function, N, precision)",
                  ["the trigonometric polynomial itself is evaluated with the library's cos/sin (C12); the recovered coefficients are compared with the planted integers",
                   "chebyfit coefficient tolerance is scaled by (2|interval|+2)^N for the change of basis conditioning"])


replay = oblcommon.replay
