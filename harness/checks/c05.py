"""C05 -- M3: recorded calls judged by TLC against MpfPost (spec/MpfPost.tla) on limb integers."""
from .. import machine, core, gen, cases, arith
from . import common

PROP = "C05"; LEVEL = "model_checking"


def main():
    chk = core.Check(PROP, LEVEL)
    mp = core.use_repo()
    runner = cases.Runner(mp)
    common.run_models(chk, MODELS)
    machine.run(chk, mp)
    g = gen.G(chk.seed * 1000003 + int(PROP[1:]))
    cs = arith.GROUPS[PROP](g, chk.pick(2500, 100000))
    common.judge_cases(chk, cs, runner, "post", "exact comparison or equal-hash rule violated")
    complex_hashing(chk, mp, g)
    chk.cov["rule"] = RULE
    chk.assumptions += ["TLC evaluator and CommunityModules Json", "ZLimb (model-checked against native ints in ZLimbCheck)",
                        "exponents |e| < 2^30 (larger ones are dropped by the encoder)"]
    chk.finish()


def complex_hashing(chk, mpmath, g):
    """mpc against mpc / complex / mpf / int / float: equality must be exact and componentwise, and equal
    values must hash equally (event chash_eq: x, y, observed x == y, hash(x), hash(y); judged by TLC)."""
    from .. import enc, tlc
    mp = mpmath.mp
    r = g.r
    events, meta = [], {}

    def part(kind):
        # values shared by all the types: small (negative) integers, dyadic fractions, doubles, specials
        t = r.random()
        if kind == "int" or t < 0.35:
            return float(r.choice([0, 1, -1, 2, -2, 3, -3, 7, -7, 10 ** 6, -10 ** 6, 2 ** 40 + 1, -(2 ** 61 - 1), 2 ** 61 - 1, -(2 ** 61)]))
        if t < 0.7:
            return r.choice([1, -1]) * r.randint(1, 2 ** 20) / 2.0 ** r.randint(0, 30)
        if t < 0.9:
            return r.choice([1, -1]) * r.random() * 2.0 ** r.randint(-60, 60)
        return r.choice([float("inf"), float("-inf"), 0.0, -0.0, float("nan")])

    n = chk.pick(600, 20000)
    for i in range(n):
        re, im = part(""), part("")
        if r.random() < 0.35:
            im = 0.0
        try:
            a = mp.mpc(mp.mpf(re), mp.mpf(im))
        except Exception:                                                  # noqa: BLE001
            continue
        t = r.random()
        if t < 0.45:
            other = complex(re, im); oa = {"k": "c", "re": enc.d(re), "im": enc.d(im)}; kind = "complex"
        elif t < 0.6:
            other = mp.mpc(mp.mpf(re), mp.mpf(im if r.random() < 0.8 else part(""))); oa = enc.c(other._mpc_); kind = "mpc"
        elif t < 0.75 and re == int(re) if re == re and abs(re) != float("inf") else False:
            other = int(re); oa = enc.z(other); kind = "int"
        elif t < 0.88:
            other = float(re); oa = enc.d(other); kind = "float"
        else:
            other = mp.mpf(re); oa = enc.f(other._mpf_); kind = "mpf"
        try:
            eq = bool(a == other); ha = hash(a); hb = hash(other)
        except Exception as e:                                             # noqa: BLE001
            chk.violation("chash_eq/%s/raises" % kind, "comparing or hashing mpc%r with %r raised %r" % ((re, im), other, e), {"re": re, "im": im, "other": repr(other)})
            continue
        eid = len(events)
        events.append(enc.event(eid, "chash_eq", [enc.c(a._mpc_), oa, enc.b(eq), enc.z(ha), enc.z(hb)], 53, "n", enc.sym("none")))
        neg = ("re<0" if re < 0 else "") + ("im<0" if im < 0 else "")
        meta[eid] = {"kind": kind, "re": float(re).hex(), "im": float(im).hex(), "other": repr(other), "eq": eq, "hash_mpc": ha, "hash_other": hb, "neg": neg}
    bad = tlc.judge(events, tag=PROP + "c")
    chk.add_traces(len(events))
    for ev in events:
        m = meta[ev["id"]]
        chk.count()
        chk.distinct(("chash", m["kind"], m["re"], m["im"], m["other"]), m["eq"])
    for i, cl in sorted(bad.items()):
        if "post" in cl:
            m = meta[i]
            chk.violation("chash_eq/%s/%s" % (m["kind"], m["neg"] or "nonneg"),
                          "mpc(%s, %s) against %s %s: equality observed %r, hashes %d and %d -- equality must be exact and equal values must hash equally"
                          % (m["re"], m["im"], m["kind"], m["other"], m["eq"], m["hash_mpc"], m["hash_other"]), m)


def replay(path):
    import json
    rec = json.load(open(path))["replay"]
    if "hash_mpc" in rec:
        mp = core.use_repo().mp
        a = mp.mpc(mp.mpf(float.fromhex(rec["re"])), mp.mpf(float.fromhex(rec["im"])))
        other = eval(rec["other"], {"mpc": mp.mpc, "mpf": mp.mpf, "inf": float("inf"), "nan": float("nan")})
        print("mpc:", a, "other:", other, "equal:", a == other, "hashes:", hash(a), hash(other))
        if a == other and hash(a) != hash(other):
            print("VIOLATION property=%s replay=%s" % (PROP, path))
            raise SystemExit(1)
        raise SystemExit(0)
    common.replay(PROP, LEVEL, path, "post")


MODELS = []
RULE = ("seeded biased generator (harness/arith.py group for this property) through libmp / operator / f-function entry "
        "levels; distinct = distinct (op, level, args, prec, mode); non-trivial = finite nonzero operands")
