"""C20 -- error, exponential and incomplete gamma integrals are accurate.

[E]: betainc with integer parameters is a polynomial in x (exact rational value); gammainc(n, 0, x)
regularized lower for integer n at x where only the structure 1 - e^-x * poly is used relationally.
[R]: SameReal over precisions for every listed function (including the exponentially small tails of
erfc and e1) and the identities erf + erfc = 1, erf(-x) = -erf(x), ncdf(x) + ncdf(-x) = 1,
gammainc(a, 0, x) + gammainc(a, x) = gamma(a), E_(n+1)(z) n = e^-z - z E_n(z) (e^-z from the
library at higher precision)."""
from .. import ex, specfun as sf
from . import oblcommon

PROP = "C20"; LEVEL = "exploration"
Fr = sf.Fr

TABLE = [(n, sf.A(lambda r: sf.rq(r, -6, 6)), sf.F1(n)) for n in ["erf", "erfc", "erfi", "npdf", "ncdf", "si", "shi", "fresnels", "fresnelc"]] + \
        [(n, sf.A(lambda r: sf.posq(r, 30)), sf.F1(n)) for n in ["ei", "e1", "li", "ci", "chi"]] + [
    ("erfc-tail", sf.A(lambda r: sf.posq(r, 40) + 5), sf.F1("erfc")),
    ("e1-tail", sf.A(lambda r: sf.posq(r, 200) + 20), sf.F1("e1")),
    ("erfinv", sf.A(lambda r: Fr(r.randint(-63, 63), 64)), sf.F1("erfinv")),
    ("expint", sf.A(lambda r: Fr(r.randint(-4, 8)), lambda r: sf.posq(r, 12)), sf.F1("expint")),
    ("gammainc-upper", sf.A(lambda r: sf.posq(r, 8), lambda r: sf.posq(r, 12)), sf.F1("gammainc")),
    ("gammainc-lower", sf.A(lambda r: sf.posq(r, 8), lambda r: sf.posq(r, 12)), lambda mp, a: mp.gammainc(sf.q2m(mp, a[0]), 0, sf.q2m(mp, a[1]))),
    ("gammainc-generalized", sf.A(lambda r: sf.posq(r, 6), lambda r: sf.posq(r, 5), lambda r: sf.posq(r, 5) + 5), sf.F1("gammainc")),
    ("gammainc-regularized", sf.A(lambda r: sf.posq(r, 8), lambda r: sf.posq(r, 12)), lambda mp, a: mp.gammainc(sf.q2m(mp, a[0]), sf.q2m(mp, a[1]), regularized=True)),
    ("betainc", sf.A(lambda r: sf.posq(r, 6), lambda r: sf.posq(r, 6), lambda r: Fr(r.randint(1, 63), 64)), lambda mp, a: mp.betainc(sf.q2m(mp, a[0]), sf.q2m(mp, a[1]), 0, sf.q2m(mp, a[2]))),
    ("erf-complex", sf.A(sf.cq), sf.F1("erf")),
]


def gen(chk, mpmath, rng):
    mp = mpmath.mp
    for item in sf.samereal(chk, mpmath, rng, TABLE, 8, chk.pick(220, 3000), PROP, hiprec=0.08):
        yield item
    # dense argument sweeps at fixed precisions: the switch points between series, cancellation-guarded and asymptotic
    # evaluation sit at arguments of size sqrt(p) (erf family) and p (exponential integrals)
    for P in chk.pick([rng.choice([100, 120, 150])], [53, 120, 250, 400]):
        den = 16
        off = Fr(rng.randint(0, 7), 8 * den)
        top = int(1.3 * (P ** 0.5)) + 2
        grid = [Fr(k, den) + off for k in range(1, top * den, chk.pick(3, 1))]
        for fname in ("erfc", "erf"):
            for item in sf.sweep(mpmath, fname, sf.F1(fname), grid, P, 8, PROP):
                yield item
        grid2 = [Fr(k, 4) + off for k in range(1, int(1.2 * P) * 4, chk.pick(24, 3))]
        for fname in ("e1", "ei"):
            for item in sf.sweep(mpmath, fname, sf.F1(fname), grid2, P, 8, PROP):
                yield item
    for i in range(chk.pick(160, 2000)):
        p = rng.choice([20, 53, 53, 100, 200]); mp.prec = p
        c = rng.random()
        try:
            if c < 0.25:
                a, b = rng.randint(1, 7), rng.randint(1, 7); x = Fr(rng.randint(0, 64), 64); X = sf.q2m(mp, x)
                # B(x; a, b) = sum_k C(b-1, k) (-1)^k x^(a+k) / (a+k)
                exact = ex.add(*[ex.mul(ex.seqnk("binom", b - 1, k), (-1) ** k, ex.div(ex.powi(ex.Qf(x), a + k), a + k)) for k in range(b)])
                yield ex.rel0_close(mp.betainc(a, b, 0, X), exact, 8, p), {"key": "exact/betainc(int,int)", "a": a, "b": b, "x": str(x), "p": p, "what": "betainc with integer parameters differs from the exact polynomial value"}
            elif c < 0.5:
                x = sf.rq(rng, -5, 5); X = sf.q2m(mp, x)
                yield ex.le(ex.ab(ex.sub(ex.add(mp.erf(X), mp.erfc(X)), 1)), ex.pow2(6 - p) if False else ex.mul(ex.pow2(8 - p), ex.mx(ex.ab(mp.erf(X)), ex.ab(mp.erfc(X)), 1))), \
                    {"key": "identity/erf+erfc", "x": str(x), "p": p, "what": "erf(x) + erfc(x) != 1"}
                yield ex.eq(mp.erf(-X), ex.neg(mp.erf(X))), {"key": "identity/erf-odd", "x": str(x), "p": p, "what": "erf(-x) != -erf(x) exactly"}
            elif c < 0.65:
                x = sf.rq(rng, -5, 5); X = sf.q2m(mp, x)
                yield ex.le(ex.ab(ex.sub(ex.add(mp.ncdf(X), mp.ncdf(-X)), 1)), ex.pow2(8 - p)), {"key": "identity/ncdf-symmetry", "x": str(x), "p": p, "what": "ncdf(x) + ncdf(-x) != 1"}
            elif c < 0.85:
                a, x = sf.posq(rng, 8), sf.posq(rng, 12); Am, X = sf.q2m(mp, a), sf.q2m(mp, x)
                lo, up, g = mp.gammainc(Am, 0, X), mp.gammainc(Am, X), mp.gamma(Am)
                yield ex.le(ex.ab(ex.sub(ex.add(lo, up), g)), ex.mul(ex.pow2(10 - p), ex.ab(g))), {"key": "identity/gammainc-split", "a": str(a), "x": str(x), "p": p,
                                                                                                   "what": "lower + upper incomplete gamma != gamma(a)"}
            else:
                n = rng.randint(1, 8); z = sf.posq(rng, 10); Z = sf.q2m(mp, z)
                e1, e0 = mp.expint(n + 1, Z), mp.expint(n, Z)
                mp.prec = 2 * p + 30; ez = mp.exp(-Z); mp.prec = p
                yield ex.le(ex.ab(ex.sub(ex.mul(n, e1), ex.sub(ez, ex.mul(ex.Qf(z), e0)))), ex.mul(ex.pow2(11 - p), ex.mx(ex.ab(ez), ex.ab(ex.mul(ex.Qf(z), e0))))), \
                    {"key": "identity/expint-recurrence", "n": n, "z": str(z), "p": p, "what": "n E_(n+1)(z) != e^-z - z E_n(z)"}
        except (ZeroDivisionError, ValueError, TypeError, mpmath.libmp.NoConvergence):
            yield None


def main():
    oblcommon.run(PROP, LEVEL, gen,
                  "seeded rational arguments in a moderate domain, tails of erfc / e1 included; distinct = (function or identity, arguments, precision)",
                  ["[R] checks are necessary conditions only", "huge arguments of ncdf / fresnel and complex orders of expint, where the unchanged library is known not to meet 2^(8-p), are not sampled"])


replay = oblcommon.replay
