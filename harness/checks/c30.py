"""C30 -- linear algebra results are accurate and factorizations are consistent.

[E with untrusted certificates]: matrices with integer / dyadic entries, n = 1..5.  The harness
supplies the exact inverse as a certificate (Fractions); TLC verifies A * Ainv = I exactly and then
checks lu_solve / qr_solve / cholesky_solve / inverse / det against the exact rational results with
cond(A) = |A|_inf |Ainv|_inf computed from the certificate; lu / qr / cholesky / LU_decomp must
satisfy their identities (P A = L U, Q^T Q = I, A = Q R, L L^T = A) with the required structure, and
matrix +, -, *, **, transpose, norms must equal their elementwise definitions -- all as exact
obligations on the returned dyadics."""
import fractions, itertools
from .. import ex
from . import oblcommon

PROP = "C30"; LEVEL = "exploration"
Fr = fractions.Fraction


def inv_frac(A):
    n = len(A)
    M = [list(map(Fr, r)) + [Fr(int(i == j)) for j in range(n)] for i, r in enumerate(A)]
    for c in range(n):
        piv = next((r for r in range(c, n) if M[r][c] != 0), None)
        if piv is None:
            return None
        M[c], M[piv] = M[piv], M[c]
        pv = M[c][c]
        M[c] = [x / pv for x in M[c]]
        for r in range(n):
            if r != c and M[r][c] != 0:
                f = M[r][c]
                M[r] = [x - f * y for x, y in zip(M[r], M[c])]
    return [r[n:] for r in M]


def det_frac(A):
    n = len(A)
    M = [list(map(Fr, r)) for r in A]
    d = Fr(1)
    for c in range(n):
        piv = next((r for r in range(c, n) if M[r][c] != 0), None)
        if piv is None:
            return Fr(0)
        if piv != c:
            M[c], M[piv] = M[piv], M[c]; d = -d
        d *= M[c][c]
        for r in range(c + 1, n):
            f = M[r][c] / M[c][c]
            M[r] = [x - f * y for x, y in zip(M[r], M[c])]
    return d


def gen(chk, mpmath, rng):
    mp = mpmath.mp
    for item in singular_cases(chk, mpmath, rng):
        yield item
    for i in range(chk.pick(100, 6000)):
        p = rng.choice([40, 53, 53, 80, 120])
        mp.prec = p
        n = rng.randint(1, 4)
        kind = rng.random()
        if rng.random() < 0.2:
            # complex matrices: Hermitian positive definite Cholesky (A = B B^H + n I, Gaussian integers), complex LU / QR solves by residual
            from .c31 import cmat
            try:
                nn = rng.randint(2, 5)
                B = mp.matrix([[mp.mpc(rng.randint(-6, 6), rng.randint(-6, 6)) for _ in range(nn)] for _ in range(nn)])
                if rng.random() < 0.5:
                    H = B * B.H + nn * mp.eye(nn)                   # exact: small integers
                    L = mp.cholesky(H)
                    Le, He = cmat(L), cmat(H)
                    R = ex.cmatsub(ex.cmatmul(Le, ex.cconjT(Le)), He)
                    struct = [ex.eq(ex.c_of(L[r, c])[0], 0) for r in range(nn) for c in range(r + 1, nn)] + [ex.eq(ex.c_of(L[r, c])[1], 0) for r in range(nn) for c in range(r + 1, nn)]
                    struct += [ex.eq(ex.c_of(L[r, r])[1], 0) for r in range(nn)] + [ex.lt(0, ex.c_of(L[r, r])[0]) for r in range(nn)]
                    yield ex.allj(ex.le(ex.cmaxabs2(R), ex.mul(ex.pow2(2 * (10 - p)), ex.cmaxabs2(He), nn * nn)), *struct), \
                        {"key": "cholesky/hermitian", "B": str(B), "p": p, "what": "L*L^H != A for a Hermitian positive definite A, or L is not lower triangular with a real positive diagonal"}
                else:
                    for d in range(nn):
                        B[d, d] += 15
                    bv = mp.matrix([mp.mpc(rng.randint(-9, 9), rng.randint(-9, 9)) for _ in range(nn)])
                    meth = rng.choice(["lu_solve", "qr_solve", "inverse*b"])
                    x = mp.lu_solve(B, bv) if meth == "lu_solve" else (mp.qr_solve(B, bv)[0] if meth == "qr_solve" else mp.inverse(B) * bv)
                    Be, xe, be = cmat(B), cmat(x), cmat(bv)
                    R = ex.cmatsub(ex.cmatmul(Be, xe), be)
                    yield ex.le(ex.cmaxabs2(R), ex.mul(ex.pow2(2 * (10 - p)), ex.cmaxabs2(Be), ex.mx(ex.cmaxabs2(xe), 1), nn ** 4)), \
                        {"key": "solve-complex/" + meth, "A": str(B), "b": str(bv), "p": p, "what": "residual A x - b of a complex solve exceeds n^2 |A| |x| 2^(10-p)"}
            except (ZeroDivisionError, ValueError, TypeError):
                yield None
            continue
        A = [[Fr(rng.randint(-9, 9), rng.choice([1, 1, 2, 4])) for _ in range(n)] for _ in range(n)]
        for d in range(n):
            A[d][d] += rng.choice([-1, 1]) * rng.randint(4, 12)        # moderate condition
        Ainv = inv_frac(A)
        if Ainv is None:
            continue
        b = [Fr(rng.randint(-9, 9), rng.choice([1, 2])) for _ in range(n)]
        Am = mp.matrix([[mp.mpf(x.numerator) / x.denominator for x in r] for r in A])
        bm = mp.matrix([mp.mpf(x.numerator) / x.denominator for x in b])
        Ae = [[ex.Qf(x) for x in r] for r in A]
        Ie = [[ex.Qf(x) for x in r] for r in Ainv]
        cert = ex.allj(*[ex.eq(v, 1 if r == c else 0) for r, row in enumerate(ex.matmul(Ae, Ie)) for c, v in enumerate(row)])
        cond = ex.mul(ex.norminf(Ae), ex.norminf(Ie))
        tol = ex.mul(cond, ex.pow2(10 - p))
        try:
            if kind < 0.3:
                meth = rng.choice(["lu_solve", "qr_solve", "inverse*b"])
                if meth == "lu_solve": x = mp.lu_solve(Am, bm)
                elif meth == "qr_solve": x = mp.qr_solve(Am, bm)[0]
                else: x = mp.inverse(Am) * bm
                xs = [[ex.add(*[ex.mul(Ie[r][c], ex.Qf(b[c])) for c in range(n)])] for r in range(n)]     # exact solution from the certificate
                xnorm = ex.mx(*[ex.ab(v[0]) for v in xs], ex.pow2(-p * 4))
                js = [cert] + [ex.le(ex.ab(ex.sub(x[r], xs[r][0])), ex.mul(tol, xnorm)) for r in range(n)]
                yield ex.allj(*js), {"key": "solve/" + meth, "A": [[str(v) for v in r] for r in A], "b": [str(v) for v in b], "p": p, "what": "solution differs from the exact rational solution by more than cond*2^(10-p)"}
            elif kind < 0.42:
                Bm = mp.inverse(Am)
                nrm = ex.norminf(Ie)
                js = [cert] + [ex.le(ex.ab(ex.sub(Bm[r, c], Ie[r][c])), ex.mul(tol, nrm)) for r in range(n) for c in range(n)]
                yield ex.allj(*js), {"key": "inverse", "A": [[str(v) for v in r] for r in A], "p": p, "what": "inverse differs from the exact rational inverse by more than cond*2^(10-p)"}
            elif kind < 0.52:
                d = mp.det(Am)
                yield ex.allj(cert, ex.le(ex.ab(ex.sub(d, ex.Qf(det_frac(A)))), ex.mul(tol, ex.ab(ex.Qf(det_frac(A))), n + 1))), {"key": "det", "A": [[str(v) for v in r] for r in A], "p": p,
                                                                                                                                "what": "determinant differs from the exact rational determinant"}
            elif kind < 0.66:
                P, L, U = mp.lu(Am)
                Pe, Le, Ue = ex.mat_of(P), ex.mat_of(L), ex.mat_of(U)
                Aout = ex.mat_of(Am)
                # mpmath's lu returns P, L, U with A = P^T... check both conventions would hide bugs: documented identity is P*A = L*U
                R = ex.matsub(ex.matmul(Pe, Aout), ex.matmul(Le, Ue))
                struct = [ex.eq(Le[r][r], 1) for r in range(n)] + [ex.eq(Le[r][c], 0) for r in range(n) for c in range(r + 1, n)] + \
                         [ex.eq(Ue[r][c], 0) for r in range(n) for c in range(r)] + \
                         [ex.eq(ex.add(*[Pe[r][c] for c in range(n)]), 1) for r in range(n)] + [ex.eq(ex.mul(Pe[r][c], ex.sub(Pe[r][c], 1)), 0) for r in range(n) for c in range(n)]
                yield ex.allj(ex.le(ex.maxabs(R), ex.mul(ex.pow2(10 - p), ex.maxabs(Aout), n * cond_guard(n))), *struct), {"key": "lu/identity", "A": [[str(v) for v in r] for r in A], "p": p,
                                                                                                                              "what": "P*A = L*U or the triangular/permutation structure fails"}
            elif kind < 0.78:
                Q, R_ = mp.qr(Am)
                Qe, Re, Aout = ex.mat_of(Q), ex.mat_of(R_), ex.mat_of(Am)
                O = ex.matsub(ex.matmul(ex.transpose(Qe), Qe), ex.ident(n))
                Rs = ex.matsub(ex.matmul(Qe, Re), Aout)
                struct = [ex.eq(Re[r][c], 0) for r in range(n) for c in range(r)]
                yield ex.allj(ex.le(ex.maxabs(O), ex.mul(ex.pow2(10 - p), n)), ex.le(ex.maxabs(Rs), ex.mul(ex.pow2(10 - p), ex.maxabs(Aout), n)), *struct), \
                    {"key": "qr/identity", "A": [[str(v) for v in r] for r in A], "p": p, "what": "Q is not orthonormal, A != QR, or R is not upper triangular"}
            elif kind < 0.88:
                # symmetric positive definite: A^T A + I
                S = [[sum(A[k][r] * A[k][c] for k in range(n)) + (1 if r == c else 0) for c in range(n)] for r in range(n)]
                Sm = mp.matrix([[mp.mpf(x.numerator) / x.denominator for x in r] for r in S])
                Lc = mp.cholesky(Sm)
                Le = ex.mat_of(Lc); Se = ex.mat_of(Sm)
                Rs = ex.matsub(ex.matmul(Le, ex.transpose(Le)), Se)
                struct = [ex.lt(0, Le[r][r]) for r in range(n)] + [ex.eq(Le[r][c], 0) for r in range(n) for c in range(r + 1, n)]
                yield ex.allj(ex.le(ex.maxabs(Rs), ex.mul(ex.pow2(10 - p), ex.maxabs(Se), n)), *struct), {"key": "cholesky/identity", "S": [[str(v) for v in r] for r in S], "p": p,
                                                                                                          "what": "L*L^T != A or the Cholesky factor is not lower triangular with positive diagonal"}
            else:
                # elementwise definitions: sum, product, integer power, transpose (exact when representable: small integers here)
                B = [[rng.randint(-20, 20) for _ in range(n)] for _ in range(n)]
                C = [[rng.randint(-20, 20) for _ in range(n)] for _ in range(n)]
                Bm, Cm = mp.matrix(B), mp.matrix(C)
                k = rng.randint(0, 4)
                Pm = Bm ** k
                Pk = ex.ident(n)
                Be = [[ex.Z(v) for v in r] for r in B]; Ce = [[ex.Z(v) for v in r] for r in C]
                for _ in range(k):
                    Pk = ex.matmul(Pk, Be)
                js = [ex.eq(x, y) for r1, r2 in zip(ex.mat_of(Bm * Cm), ex.matmul(Be, Ce)) for x, y in zip(r1, r2)]
                js += [ex.eq(x, ex.add(y, z)) for r1, r2, r3 in zip(ex.mat_of(Bm + Cm), Be, Ce) for x, y, z in zip(r1, r2, r3)]
                js += [ex.eq(x, ex.sub(y, z)) for r1, r2, r3 in zip(ex.mat_of(Bm - Cm), Be, Ce) for x, y, z in zip(r1, r2, r3)]
                js += [ex.eq(x, y) for r1, r2 in zip(ex.mat_of(Bm.T), ex.transpose(Be)) for x, y in zip(r1, r2)]
                js += [ex.relabs_close(x, y, 4, p) for r1, r2 in zip(ex.mat_of(Pm), Pk) for x, y in zip(r1, r2)]
                js += [ex.eq(mp.norm(Bm, mp.inf) if n > 1 else abs(Bm[0, 0]), ex.mx(*[ex.ab(v) for r in Be for v in r]) if n > 1 else ex.ab(Be[0][0])),
                       ex.eq(mp.mnorm(Bm, 1), ex.mx(*[ex.add(*[ex.ab(Be[r][c]) for r in range(n)]) for c in range(n)])),
                       ex.eq(mp.mnorm(Bm, mp.inf), ex.norminf(Be))]
                yield ex.allj(*js), {"key": "elementwise", "B": B, "C": C, "k": k, "p": p, "what": "matrix +, -, *, **, transpose or a norm differs from its elementwise definition"}
                # non-square shapes (tall, wide, vectors): products, transposes and the three matrix norms
                r_, c_ = rng.randint(1, 5), rng.randint(1, 5)
                T = [[rng.randint(-20, 20) for _ in range(c_)] for _ in range(r_)]
                Tm = mp.matrix(T); Te = [[ex.Z(v) for v in row] for row in T]
                js2 = [ex.eq(x, y) for r1, r2 in zip(ex.mat_of(Tm.T), ex.transpose(Te)) for x, y in zip(r1, r2)]
                js2 += [ex.eq(x, y) for r1, r2 in zip(ex.mat_of(Tm.T * Tm), ex.matmul(ex.transpose(Te), Te)) for x, y in zip(r1, r2)]
                try:
                    ninf = mp.mnorm(Tm, mp.inf); n1 = mp.mnorm(Tm, 1)
                    js2 += [ex.eq(ninf, ex.norminf(Te)), ex.eq(n1, ex.mx(*[ex.add(*[ex.ab(Te[a][b]) for a in range(r_)]) for b in range(c_)]))]
                    nF = mp.mnorm(Tm, "F")
                    js2.append(ex.le(ex.ab(ex.sub(ex.sq(nF), ex.add(*[ex.sq(v) for row in Te for v in row]))), ex.mul(ex.pow2(6 - p), ex.add(*[ex.sq(v) for row in Te for v in row], 1))))
                except Exception as e_:
                    js2.append({"j": "false"})
                yield ex.allj(*js2), {"key": "elementwise/non-square", "T": T, "p": p, "what": "transpose, product or a matrix norm of a non-square matrix differs from its definition (or raises)"}
        except (ZeroDivisionError, ValueError, TypeError, AssertionError):
            yield None


def singular_cases(chk, mpmath, rng):
    """the property's quantifier includes singular matrices, which must raise ZeroDivisionError for inverse / lu_solve"""
    mp = mpmath.mp
    for i in range(chk.pick(40, 600)):
        n = rng.randint(2, 4)
        rows = [[rng.randint(-5, 5) for _ in range(n)] for _ in range(n - 1)]
        kind = rng.random()
        if kind < 0.4:
            rows.append([2 * v for v in rows[0]])                  # proportional rows
        elif kind < 0.7:
            rows.append([0] * n)                                   # zero row
        else:
            rows.append([rng.randint(-5, 5) for _ in range(n)])
            col = rng.randrange(n)
            for r in rows:
                r[col] = 0                                         # zero column
        rng.shuffle(rows)
        which = rng.choice(["lu_solve", "inverse"])
        try:
            if which == "lu_solve":
                mp.lu_solve(mp.matrix(rows), mp.matrix([1] * n))
            else:
                mp.inverse(mp.matrix(rows))
            ok = False; exc = "no exception"
        except ZeroDivisionError:
            ok = True; exc = "ZeroDivisionError"
        except Exception as e:
            ok = False; exc = type(e).__name__
        yield ({"j": "true"} if ok else {"j": "false"}), {"key": "singular/" + which, "A": rows, "p": 53, "exc": exc, "what": "a singular matrix did not raise ZeroDivisionError"}


def cond_guard(n):
    return 4


def main():
    oblcommon.run(PROP, LEVEL, gen,
                  "seeded diagonally strengthened rational matrices n<=4 with exact inverse certificates verified by TLC; distinct = (operation, matrix, precision)",
                  ["the exact inverse supplied by the harness is untrusted: every obligation includes the exact check A*Ainv = I",
                   "cond(A) is taken in the infinity norm"])


replay = oblcommon.replay
