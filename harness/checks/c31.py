"""C31 -- eigen and singular value decompositions satisfy their identities.

[E by residuals]: obligations on the returned dyadic (complex) entries only -- ||A V - V diag(E)||,
orthonormality of eigenvector / singular vector matrices, real eigenvalues for symmetric / Hermitian
input, singular values non-negative and non-increasing, ||A - U S V|| , Schur / Hessenberg
reconstruction Q T Q^H = A -- and gauss_quadrature(n, type) integrates monomials up to degree 2n-1
exactly against the weight (rational moments for legendre on [-1,1]).  Tolerance ||A|| 2^(10-p) n^2."""
import fractions
from .. import ex
from . import oblcommon

PROP = "C31"; LEVEL = "exploration"


def cmat(M):
    return ex.mat_of(M, complex_ok=True)


def diag_c(vals):
    n = len(vals)
    return [[ex.c_of(vals[i]) if i == j else (ex.Z(0), ex.Z(0)) for j in range(n)] for i in range(n)]


def structured(mp, rng, n, cplx=False):
    """dense, upper triangular, block upper triangular (deflates in the middle of the QR iteration), diagonal or sparse"""
    ent = (lambda: mp.mpc(rng.randint(-9, 9), rng.randint(-9, 9))) if cplx else (lambda: mp.mpf(rng.randint(-9, 9)))
    A = mp.matrix([[ent() for _ in range(n)] for _ in range(n)])
    shape = rng.choice(["dense", "dense", "triu", "block", "block", "diag", "sparse"])
    if shape == "triu":
        for r in range(n):
            for c in range(r):
                A[r, c] = 0
    elif shape == "block" and n >= 3:
        k = rng.randint(1, n - 1)                                  # A = [[B, C], [0, D]]
        for r in range(k, n):
            for c in range(k):
                A[r, c] = 0
    elif shape == "diag":
        for r in range(n):
            for c in range(n):
                if r != c:
                    A[r, c] = 0
    elif shape == "sparse":
        for r in range(n):
            for c in range(n):
                if r != c and rng.random() < 0.5:
                    A[r, c] = 0
    return A


def gen(chk, mpmath, rng):
    mp = mpmath.mp
    for i in range(chk.pick(140, 3000)):
        p = rng.choice([53, 53, 80, 120])
        mp.prec = p
        n = rng.randint(2, 4)
        kind = rng.random()
        try:
            if kind < 0.3:
                # symmetric / Hermitian
                herm = rng.random() < 0.4
                A = mp.matrix(n)
                for r in range(n):
                    for c in range(r, n):
                        if herm and r != c:
                            v = mp.mpc(rng.randint(-9, 9), rng.randint(-9, 9)); A[r, c] = v; A[c, r] = mp.conj(v)
                        else:
                            A[r, c] = A[c, r] = mp.mpf(rng.randint(-9, 9))
                E, Q = (mp.eighe(A) if herm else mp.eigsy(A))
                Ae, Qe = cmat(A), cmat(Q)
                D = diag_c(list(E))
                R = ex.cmatsub(ex.cmatmul(Ae, Qe), ex.cmatmul(Qe, D))
                O = ex.cmatsub(ex.cmatmul(ex.cconjT(Qe), Qe), [[(ex.Z(int(r == c)), ex.Z(0)) for c in range(n)] for r in range(n)])
                scale = ex.mx(ex.cmaxabs2(Ae), 1)
                js = [ex.le(ex.cmaxabs2(R), ex.mul(ex.pow2(2 * (10 - p)), scale, n ** 4)), ex.le(ex.cmaxabs2(O), ex.mul(ex.pow2(2 * (10 - p)), n ** 4))]
                js += [ex.eq(0 if not hasattr(e, "_mpc_") else e.imag, 0) for e in E]
                js += [ex.le(E[k], E[k + 1]) for k in range(n - 1)]
                yield ex.allj(*js), {"key": "eig" + ("he" if herm else "sy"), "A": str(A), "p": p, "what": "symmetric/Hermitian eigendecomposition: residual, orthonormality, realness or ordering fails"}
            elif kind < 0.5:
                n = rng.randint(2, 6)
                A = structured(mp, rng, n, cplx=rng.random() < 0.3)
                for d in range(n):
                    A[d, d] += 10 * (d + 1)            # well separated spectrum: moderate eigenvector condition
                E, ER = mp.eig(A)
                Ae, Ve = cmat(A), cmat(ER)
                R = ex.cmatsub(ex.cmatmul(Ae, Ve), ex.cmatmul(Ve, diag_c(list(E))))
                yield ex.le(ex.cmaxabs2(R), ex.mul(ex.pow2(2 * (10 - p)), ex.cmaxabs2(Ae), ex.mx(ex.cmaxabs2(Ve), 1), n ** 4)), {"key": "eig/residual", "A": str(A), "p": p, "what": "A*V - V*diag(E) exceeds the tolerance"}
            elif kind < 0.7:
                m = rng.randint(2, 4)
                cplx = rng.random() < 0.3
                A = mp.matrix([[(mp.mpc(rng.randint(-9, 9), rng.randint(-9, 9)) if cplx else mp.mpf(rng.randint(-9, 9))) for _ in range(n)] for _ in range(m)])
                U, S, V = mp.svd(A)
                Ue, Ve, Ae = cmat(U), cmat(V), cmat(A)
                k = len(S)
                Sm = [[ex.c_of(S[r]) if r == c else (ex.Z(0), ex.Z(0)) for c in range(k)] for r in range(k)]
                R = ex.cmatsub(ex.cmatmul(ex.cmatmul(Ue, Sm), Ve), Ae)
                js = [ex.le(ex.cmaxabs2(R), ex.mul(ex.pow2(2 * (10 - p)), ex.mx(ex.cmaxabs2(Ae), 1), (m * n) ** 2))]
                js += [ex.le(0, S[r]) for r in range(k)] + [ex.le(S[r + 1], S[r]) for r in range(k - 1)]
                OU = ex.cmatsub(ex.cmatmul(ex.cconjT(Ue), Ue), [[(ex.Z(int(r == c)), ex.Z(0)) for c in range(k)] for r in range(k)])
                js.append(ex.le(ex.cmaxabs2(OU), ex.mul(ex.pow2(2 * (10 - p)), (m * n) ** 2)))
                yield ex.allj(*js), {"key": "svd", "A": str(A), "p": p, "what": "SVD: reconstruction, ordering, sign or orthonormality fails"}
            elif kind < 0.85:
                n = rng.randint(2, 6)
                A = structured(mp, rng, n, cplx=rng.random() < 0.3)
                which = rng.choice(["schur", "hessenberg"])
                Q, T = (mp.schur(A) if which == "schur" else mp.hessenberg(A))
                Qe, Te, Ae = cmat(Q), cmat(T), cmat(A)
                R = ex.cmatsub(ex.cmatmul(ex.cmatmul(Qe, Te), ex.cconjT(Qe)), Ae)
                js = [ex.le(ex.cmaxabs2(R), ex.mul(ex.pow2(2 * (10 - p)), ex.mx(ex.cmaxabs2(Ae), 1), n ** 4))]
                if which == "schur":
                    js += [ex.eq(ex.cnorm2(Te[r][c]), 0) for r in range(n) for c in range(r)]
                else:
                    js += [ex.eq(ex.cnorm2(Te[r][c]), 0) for r in range(n) for c in range(r - 1)]
                yield ex.allj(*js), {"key": which, "A": str(A), "p": p, "what": "Q*T*Q^H != A or T lacks its triangular/Hessenberg structure"}
            else:
                # Gauss-Legendre rule: sum w_i x_i^k = integral of x^k over [-1,1] = 2/(k+1) (k even), 0 (k odd), k <= 2n-1
                nn = rng.randint(1, 7)
                X, W = mp.gauss_quadrature(nn, "legendre")
                js = []
                for k in range(2 * nn):
                    s = ex.add(*[ex.mul(W[t], ex.powi(X[t], k)) for t in range(nn)])
                    exact = ex.Qf(fractions.Fraction(2, k + 1)) if k % 2 == 0 else ex.Z(0)
                    js.append(ex.le(ex.ab(ex.sub(s, exact)), ex.pow2(10 - p)))
                yield ex.allj(*js), {"key": "gauss_quadrature/legendre", "n": nn, "p": p, "what": "Gauss-Legendre rule does not integrate monomials up to degree 2n-1 exactly"}
        except (ZeroDivisionError, ValueError, TypeError, mpmath.libmp.NoConvergence):
            yield None


def main():
    oblcommon.run(PROP, LEVEL, gen,
                  "seeded small integer matrices (symmetric, Hermitian, general with separated spectrum, rectangular) and Gauss-Legendre rules; distinct = (routine, matrix, precision)",
                  ["tolerance ||A|| * 2^(10-p) * n^2 in the max norm; eig residuals are scaled by the eigenvector matrix size",
                   "other Gauss rule types (hermite, laguerre, chebyshev, jacobi) have irrational moments and need the series oracle"])


replay = oblcommon.replay
