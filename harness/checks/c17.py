"""C17 -- mathematical constants at every precision and history.

M1: ConstMemo (TLC, exhaustive): for an arbitrary constant and every request history the memo logic
    is history-free, directed answers are on the correct side, answers are within 1 ulp and are the
    correctly rounded constant outside the ambiguity band; a non-floor fixed-point routine is
    refuted (expected counterexample).
M2/M3: seeded request histories are replayed on every real constant from an emptied memo; after each
    request the projected memo precision must follow the spec's memo rule, the answer must equal the
    answer from an emptied memo (history-free), the five modes must be ordered/adjacent at each
    precision and the floor/ceiling enclosures must be nested across precisions (one real number is
    compatible with every answer of every history) -- all judged by TLC (Judge: const/const5/nest)."""
import json, random
from .. import core, tlc, enc, precrec

PROP = "C17"; LEVEL = "model_checking"
ELEM = ["pi", "e", "ln2", "ln10", "phi", "degree"]
OTHER = ["euler", "catalan", "apery", "khinchin", "glaisher", "twinprime", "mertens"]


def memo_cell(lm, name):
    """the memoised fixed-point function object (carrying memo_prec / memo_val) behind mpf_<name>"""
    fx = {"degree": "pi"}.get(name, name)
    g = getattr(lm.libelefun, fx + "_fixed", None) or getattr(lm.gammazeta, fx + "_fixed")
    for cell in g.__closure__ or ():
        f = cell.cell_contents
        if hasattr(f, "memo_prec"):
            return f
    raise core_error("no memo for " + name)


def history(rng, n, pmax):
    out = []
    for _ in range(n):
        c = rng.random()
        if c < 0.3:
            p = rng.randint(1, 40)
        elif c < 0.6:
            p = rng.choice([53, 52, 54, 64, 100, 113, 380, 400, 420, 580, 600, 620])
        else:
            p = rng.randint(1, pmax)
        out.append((p, rng.choice("nfcdu")))
    return out


VALUE_PMAX = 700


def per_constant(chk, mpmath, lm, name, rng, inj, events, meta, eid, nh):
    slow = name in ("khinchin", "glaisher", "twinprime", "mertens", "euler")
    pmax = chk.pick(300 if slow else 1200, 900 if slow else 3000)
    fn = getattr(lm, "mpf_" + name)
    cell = memo_cell(lm, name)
    for h in range(nh if not slow else max(1, nh // 3)):
        cell.memo_prec = -1; cell.memo_val = None
        hist = history(rng, chk.pick(6, 12), pmax)
        for step, (p, rnd) in enumerate(hist):
            if step and rng.random() < 0.25:
                # a request that misses and is aborted by an exception at the start of the fixed-point routine
                pa = max(cell.memo_prec, 10) + rng.randint(30, 300)
                mb, vb = cell.memo_prec, cell.memo_val
                lab = "fixed:" + {"degree": "pi"}.get(name, name)
                inj.add_code(lab, cell.__code__)
                inj.begin((lab, 1))
                try:
                    fn(pa, rnd)
                except precrec.Injected:
                    pass
                inj.arm = None
                ev = enc.event(eid, "const", [], pa, rnd, enc.sym("none"), pb=0,
                               x={"abort": True, "mb": mb, "ma": cell.memo_prec, "sameval": cell.memo_val == vb})
                meta[eid] = {"const": name, "aborted_request": pa, "history": hist[:step]}
                events.append(ev); eid += 1
            if step and cell.memo_prec > 40 and rng.random() < 0.35:
                # a request landing just around the end of the memo window (wp = p + 20 vs memo_prec)
                p = max(1, cell.memo_prec - 20 + rng.randint(-6, 22))
            mb = cell.memo_prec
            try:
                ans = fn(p, rnd)
            except Exception as e:
                chk.violation("raises/%s" % name, "constant %s at prec %d raises %r after history %s" % (name, p, e, hist[:step]),
                              {"const": name, "history": hist[:step + 1]})
                cell.memo_prec = -1; cell.memo_val = None
                continue
            ma = cell.memo_prec
            saved = (cell.memo_prec, cell.memo_val)
            cell.memo_prec = -1; cell.memo_val = None
            scratch = fn(p, rnd)
            if saved[1] is None:
                saved = (cell.memo_prec, cell.memo_val)
            cell.memo_prec, cell.memo_val = saved
            ev = enc.event(eid, "const", [], p, rnd, enc.f(ans), pb=p, x={"abort": False, "mb": mb, "ma": ma, "scratch": enc.f(scratch)})
            meta[eid] = {"const": name, "history": hist[:step + 1]}
            events.append(ev); eid += 1
    # five modes at one precision, and nested enclosures across precisions (via the public contexts too)
    precs = sorted(set([rng.randint(1, pmax) for _ in range(chk.pick(8, 40))] + [1, 2, 53]))
    encl = []
    for p in precs:
        try:
            vals = [fn(p, r) for r in "nfcdu"]
        except Exception as e:
            chk.violation("raises/%s" % name, "constant %s at prec %d raises %r" % (name, p, e), {"const": name, "p": p})
            cell.memo_prec = -1; cell.memo_val = None
            vals = [fn(p, r) for r in "nfcdu"]
        # value anchoring against the spec's own enclosures (RealFun) / the algebraic definition of phi
        wv = p + 40
        for r_, v_ in zip("nfcdu", vals):
            if name in ("pi", "ln2", "degree") and p <= VALUE_PMAX:
                events.append(enc.event(eid, "realconst", [], p, r_, enc.f(v_), pb=0, x={"f": name, "w": wv}))
            elif name == "e" and p <= VALUE_PMAX:
                events.append(enc.event(eid, "realround", [enc.f((0, 1, 0, 1))], p, r_, enc.f(v_), pb=0, x={"f": "exp", "w": wv}))
            elif name == "ln10" and p <= VALUE_PMAX:
                events.append(enc.event(eid, "realround", [enc.f((0, 5, 1, 3))], p, r_, enc.f(v_), pb=0, x={"f": "log", "w": wv}))
            elif name == "phi":
                events.append(enc.event(eid, "phi_round", [], p, r_, enc.f(v_), pb=0))
            else:
                continue
            meta[eid] = {"const": name, "p": p, "rnd": r_, "value_vs_spec_enclosure": True}
            eid += 1
        ev = enc.event(eid, "const5", [enc.f(v) for v in vals], p, "n", enc.sym("none"))
        meta[eid] = {"const": name, "p": p, "five_modes": True}
        events.append(ev); eid += 1
        encl.append(enc.t([enc.f(vals[1]), enc.f(vals[2])]))
    if name in ("pi", "e", "ln2", "ln10", "phi", "euler", "catalan") :
        iv = mpmath.iv
        for p in precs[:6]:
            iv.prec = p
            ab = getattr(iv, name)._mpi_ if hasattr(getattr(iv, name), "_mpi_") else (+getattr(iv, name))._mpi_
            encl_iv = enc.t([enc.f(ab[0]), enc.f(ab[1])])
            ev = enc.event(eid, "nest", [enc.t([enc.f(fn(p, "f")), enc.f(fn(p, "c"))]), encl_iv][::-1], p, "n", enc.sym("none"))
            meta[eid] = {"const": name, "p": p, "iv_contains_mp_enclosure": True}
            events.append(ev); eid += 1
        iv.prec = 53
    ev = enc.event(eid, "nest", encl, 0, "n", enc.sym("none"))
    meta[eid] = {"const": name, "nested_precisions": precs}
    events.append(ev); eid += 1

    return eid


def main():
    chk = core.Check(PROP, LEVEL)
    mpmath = core.use_repo()
    lm = mpmath.libmp
    for cfg, expect in [(chk.pick("ConstMemo_quick.cfg", "ConstMemo_thorough.cfg"), None), ("ConstMemo_floorerr.cfg", "HistoryFree")]:
        res = tlc.run_model("ConstMemo", cfg, timeout=7200)
        chk.add_model(res, "ConstMemo/" + cfg)
        if expect:
            if res["violated"] != expect:
                chk.machinery("%s: expected refutation of %s not found (vacuity guard)" % (cfg, expect))
        elif not res["ok"]:
            if res["violated"]:
                chk.violation("model/ConstMemo/" + res["violated"], "memo design model violates " + res["violated"], {"cfg": cfg})
            else:
                chk.machinery(cfg + ": TLC failed\n" + res["output"][-2000:])
    rng = random.Random(chk.seed * 65537 + 17)
    inj = precrec.Injector({})
    events, meta = [], {}
    eid = 0
    nh = chk.pick(3, 25)
    def reset_all():
        for nm in ELEM + OTHER + ["sqrtpi", "ln_sqrt2pi"]:
            try:
                cc = memo_cell(lm, nm); cc.memo_prec = -1; cc.memo_val = None
            except Exception:
                pass
    for name in ELEM + OTHER:
      try:
        eid = per_constant(chk, mpmath, lm, name, rng, inj, events, meta, eid, nh)
      except Exception as e:
        chk.violation("raises/%s" % name, "evaluating constant %s raised %r in some history" % (name, e), {"const": name, "exc": repr(e)})
        reset_all()
    inj.close()
    bad = tlc.judge(events, tag=PROP, shards=8)
    for ev in events:
        chk.count(); chk.distinct(json.dumps(meta[ev["id"]], sort_keys=True), True)
    chk.add_traces(len(events))
    for ev in events[:2] + events[-1:]:
        chk.sample(meta[ev["id"]])
    for i, clauses in sorted(bad.items()):
        m = meta[i]
        for cl in clauses:
            if cl in ("canon", "bits"):
                continue
            if cl == "undecided":
                chk.cov["undecided"] = chk.cov.get("undecided", 0) + 1
                continue
            chk.violation("%s/%s" % (cl, m["const"]), "constant %s: clause %s fails: %s" % (m["const"], cl, json.dumps(m)[:200]), m)
    chk.cov["rule"] = ("seeded request histories (precision, mode) per constant from an emptied memo; distinct = (constant, history prefix) "
                       "or (constant, precision set); every event is judged by TLC")
    chk.assumptions += ["pi, ln2, degree, e, ln10 are judged for correct rounding against the spec's own series enclosures (RealFun: Machin, atanh(1/3), exp and log series) "
                        "up to %d bits, phi against its algebraic definition at every precision; the other seven constants relationally (one real number compatible with every answer)" % VALUE_PMAX,
                        "remainder bounds of the series in spec/RealFun.tla are trusted mathematics"]
    chk.finish()


def replay(path):
    print("replay: re-run bin/check C17 with the seed recorded in the evidence; histories are seeded")
    raise SystemExit(0)
