"""C16 -- interval comparisons are sound three-valued predicates.

M1: IvCmp (TLC, exhaustive over all order types of two intervals incl. infinite endpoints): the
    transcribed predicates equal the quantified semantics.
M2: every pair of the model, with the spec's own verdicts (printed by TLC), is replayed on the real
    iv context: each endpoint realised in several encodings (mpf, int, float, string), both as
    interval-vs-interval and number-vs-interval, at several iv precisions."""
import json, re, random, fractions
from .. import core, tlc

PROP = "C16"; LEVEL = "model_checking"
TV = {"T": True, "F": False, "N": None}


def model_pairs(chk):
    res = tlc.run_model("IvCmp", "IvCmp_emit.cfg", workers=1)
    chk.add_model(res, "IvCmp")
    if not res["ok"]:
        if res["violated"]:
            chk.violation("model/IvCmp/" + res["violated"], "transcribed interval predicates disagree with the semantics", {"cfg": "IvCmp_emit.cfg"})
            return []
        chk.machinery("IvCmp: TLC failed\n" + res["output"][-2000:])
    pairs = []
    for tup in tlc.parse_tuples(res["output"], "PAIR"):
        m = re.match(r'<<"PAIR", <<(-?\d+), (-?\d+)>>, <<(-?\d+), (-?\d+)>>, "(.)", "(.)", "(.)", "(.)", (TRUE|FALSE), (TRUE|FALSE)>>', tup)
        if not m:
            chk.machinery("unparsable PAIR line " + tup)
        g = m.groups()
        pairs.append(((int(g[0]), int(g[1])), (int(g[2]), int(g[3])),
                      {"lt": TV[g[4]], "le": TV[g[5]], "gt": TV[g[6]], "ge": TV[g[7]], "in": g[8] == "TRUE", "eq": g[9] == "TRUE"}))
    return pairs


class Realiser:
    """strictly increasing maps from the model grid to real numbers, in several encodings"""

    def __init__(self, mpmath, n, rng, kind):
        self.m = mpmath
        self.n = n
        self.kind = kind
        mp = mpmath.mp
        k = 2 * n + 4
        if kind == "smallint":
            base = rng.randint(-20, 20); self.vals = [base + i for i in range(k)]
        elif kind == "dyadic":
            base = rng.randint(-5, 5); self.vals = [fractions.Fraction(base * 8 + i, 8) for i in range(k)]
        elif kind == "tight":            # neighbours differ in the 40th bit only
            base = rng.randint(1, 9); self.vals = [base + fractions.Fraction(i, 2 ** 40) for i in range(k)]
        else:                            # huge / tiny scales
            sc = rng.choice([2 ** 200, fractions.Fraction(1, 2 ** 300)])
            self.vals = [sc * (i - n) for i in range(k)]

    def num(self, g):
        return self.vals[g + 3]

    def mpf(self, g):
        mp = self.m.mp
        if g == -2:
            return mp.ninf
        if g == 2 * self.n:
            return mp.inf
        v = self.num(g)
        old = mp.prec
        mp.prec = 2000
        try:
            return mp.mpf(v.numerator) / v.denominator if isinstance(v, fractions.Fraction) else mp.mpf(v)
        finally:
            mp.prec = old

    def builtin(self, g, rng):
        """an int / float encoding of the grid value if it has one"""
        if g == -2:
            return float("-inf")
        if g == 2 * self.n:
            return float("inf")
        v = self.num(g)
        if isinstance(v, int):
            return v if rng.random() < 0.5 else (float(v) if abs(v) < 2 ** 53 else v)
        if v.denominator == 1 and rng.random() < 0.5:
            return int(v)
        f = float(v)
        return f if fractions.Fraction(f) == v else None


OPS = {"lt": lambda a, b: a < b, "le": lambda a, b: a <= b, "gt": lambda a, b: a > b, "ge": lambda a, b: a >= b,
       "eq": lambda a, b: a == b, "ne": lambda a, b: a != b, "in": lambda a, b: a in b}


def main():
    chk = core.Check(PROP, LEVEL)
    mpmath = core.use_repo()
    iv = mpmath.iv
    pairs = model_pairs(chk)
    rng = random.Random(chk.seed * 31337 + 16)
    n = 4
    reps = chk.pick(3, 25)
    ntr = 0
    for (s, t, want) in pairs:
        for rep in range(reps):
            kind = rng.choice(["smallint", "dyadic", "tight", "scale"])
            R = Realiser(mpmath, n, rng, kind)
            iv.prec = rng.choice([10, 53, 200]) if kind != "tight" else rng.choice([53, 200])
            try:
                S = iv.mpf([R.mpf(s[0]), R.mpf(s[1])])
                T = iv.mpf([R.mpf(t[0]), R.mpf(t[1])])
                variants = [("iv,iv", S, T)]
                # number-vs-interval mixes when an operand is a point with an exact builtin encoding
                if s[0] == s[1]:
                    b = R.builtin(s[0], rng)
                    if b is not None:
                        variants.append(("num,iv", b, T))
                    variants.append(("mpf,iv", R.mpf(s[0]), T))
                if t[0] == t[1]:
                    b = R.builtin(t[0], rng)
                    if b is not None and s[0] != s[1]:
                        variants.append(("iv,num", S, b))
                for vname, A, B in variants:
                    for op, fn in OPS.items():
                        if op == "in" and not hasattr(B, "_mpi_"):
                            continue
                        if not hasattr(A, "_mpi_") and not hasattr(B, "_mpi_"):
                            continue
                        if vname == "mpf,iv" and op in ("eq", "ne"):
                            continue        # mp.mpf.__eq__(interval) is mp-context behaviour, outside C16
                        exp = (not want["eq"]) if op == "ne" else want[op]
                        try:
                            got = fn(A, B)
                        except Exception as e:
                            got = "raise:" + type(e).__name__
                        chk.count()
                        chk.distinct((s, t, kind, vname, op), True)
                        if got is not exp and got != exp or (got is None) != (exp is None):
                            case = {"s": s, "t": t, "op": op, "variant": vname, "kind": kind, "iv_prec": iv.prec,
                                    "A": repr(A), "B": repr(B), "got": repr(got), "spec": repr(exp)}
                            wide = False
                            chk.violation("%s/%s" % (op, vname), "interval predicate disagrees with the spec: %s" % json.dumps(case), case)
                ntr += 1
            finally:
                iv.prec = 53
    # operands with more bits than iv.prec (int/float are converted outward): soundness of <,<=,>,>= and exactness of `in`
    wide_checks(chk, mpmath, rng, chk.pick(300, 5000))
    chk.add_traces(ntr)
    chk.sample({"pair": pairs[7][:2], "spec_verdicts": pairs[7][2]} if len(pairs) > 7 else "none")
    chk.cov["exhaustive"] = True
    chk.cov["rule"] = ("all pairs of intervals over the model grid (complete for order types), each replayed in several numeric realisations "
                       "and operand encodings; distinct = (pair, realisation kind, encoding variant, operator)")
    chk.assumptions += ["order-type completeness of the enumeration (predicates depend on endpoint order only)"]
    chk.finish()


def wide_checks(chk, mpmath, rng, n):
    """left operands of `in` and comparison operands carrying more bits than iv.prec"""
    iv = mpmath.iv; mp = mpmath.mp
    for k in range(n):
        iv.prec = rng.choice([10, 24, 30])
        try:
            lo = rng.randint(-3, 3); width = rng.randint(0, 4)
            a = mp.mpf(lo); b = mp.mpf(lo + width) + mp.mpf(2) ** -rng.randint(20, 60) * rng.choice([0, 1])
            T = iv.mpf([a, b])
            # a float just inside / outside an endpoint, with far more bits than iv.prec
            end = rng.choice([a, b])
            eps = 2.0 ** -rng.randint(iv.prec + 2, 50)
            x = float(end) + rng.choice([-1, 1, 0]) * eps
            if x != x or abs(x) == float("inf"):
                continue
            truth_in = (mp.mpf(a) <= mp.mpf(x)) and (mp.mpf(x) <= mp.mpf(b))     # exact: mpf comparisons are exact (C05)
            got = x in T
            chk.count(); chk.distinct(("wide", k), True)
            if got != truth_in:
                case = {"x": x.hex(), "interval": [repr(a), repr(b)], "iv_prec": iv.prec, "got": got, "exact": truth_in}
                chk.violation("in/wide-left-operand", "`x in interval` is not exact for an operand with more bits than iv.prec: %s" % json.dumps(case), case)
            for op in ("lt", "le", "gt", "ge"):
                got = OPS[op](T, x)
                xs = mp.mpf(x)
                allp = {"lt": b < xs, "le": b <= xs, "gt": a > xs, "ge": a >= xs}[op]
                nonep = {"lt": a >= xs, "le": a > xs, "gt": b <= xs, "ge": b < xs}[op]
                if (got is True and not allp) or (got is False and not nonep):
                    case = {"x": x.hex(), "interval": [repr(a), repr(b)], "op": op, "iv_prec": iv.prec, "got": got}
                    chk.violation("%s/wide-operand-unsound" % op, "unsound interval comparison: %s" % json.dumps(case), case)
        finally:
            iv.prec = 53


def replay(path):
    print(open(path).read())
    raise SystemExit(0)
