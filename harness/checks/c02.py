"""C02 -- basic real arithmetic is correctly rounded in every rounding mode.

M1: RoundingLemmas (the oracle's forms agree on a small universe) and MpfMachine
    (transcribed libmp algorithms => postconditions, exhaustive MiniFloat).
M3: real-size events through four entry levels (libmp function, operator, f-function with
    prec/rounding/exact keywords, constructor), each judged by TLC with MpfPost on limbs."""
import fractions
from .. import core, tlc, gen, cases, enc
from ..cases import A_f, A_z, A_d, A_q, A_l, case

PROP = "C02"
BINOPS = ["add", "sub", "mul", "div"]


def gen_cases(g, n):
    r = g.r
    out = []
    while len(out) < n:
        p = g.prec(big=r.random() < 0.1)
        rnd = g.mode()
        c = r.random()
        if c < 0.55:
            op = r.choice(BINOPS)
            x, y = g.pair(p)
            lvl = r.choice(["libmp", "libmp", "oper", "ffun"])
            if lvl == "oper":
                rnd = "n"
            t = r.random()
            if lvl != "libmp" and t < 0.2 and y[1] and y[2] >= 0 and y[2] < 64:
                # int right/left operand
                n_ = (-1) ** y[0] * (y[1] << y[2])
                args = [A_f(x), A_z(n_)] if r.random() < 0.5 else [A_z(n_), A_f(x)]
                if args[0][0] == "z" and lvl == "ffun":
                    pass
            elif lvl != "libmp" and t < 0.35:
                fl = r.choice([0.1, -2.5, 1e300, 5e-324, 3.0, -1e-200, float(r.getrandbits(60)), r.random()])
                args = [A_f(x), A_d(fl)] if r.random() < 0.5 else [A_d(fl), A_f(x)]
            else:
                args = [A_f(x), A_f(y)]
            kw = {}
            if lvl == "ffun" and r.random() < 0.15 and op != "div":
                # exact / prec=inf: keep the exponent gap materialisable
                if args[0][0] == "f" and args[1][0] == "f" and abs(args[0][3] - args[1][3]) < 20000:
                    kw = {"exact": True} if r.random() < 0.5 else {"inf": True}
            out.append(case(op, lvl, args, p, rnd, **kw))
        elif c < 0.63:
            x = g.mpf(p, neg=0.0)
            if x == gen.FNINF:
                x = gen.FINF
            lvl = r.choice(["libmp", "oper", "ffun"])
            out.append(case("sqrt", lvl, [A_f(x)], p, "n" if lvl == "oper" else rnd))
        elif c < 0.73:
            x = g.mpf(p)
            op = r.choice(["pos", "neg", "abs"])
            lvl = r.choice(["libmp", "oper"] + (["ffun"] if op == "neg" else []) + (["ctor"] if op == "pos" else []))
            out.append(case(op, lvl, [A_f(x)], p, "n" if lvl == "oper" else rnd))
        elif c < 0.8:
            nb = g.bits(p)
            n_ = g.mant(nb, p) << r.choice([0, 0, 1, 7, r.randint(0, 300)])
            if r.random() < 0.5:
                n_ = -n_
            if r.random() < 0.05:
                n_ = 0
            lvl = r.choice(["libmp", "ctor", "oper"])
            out.append(case("from_int", lvl, [A_z(n_)], p, "n" if lvl == "oper" else rnd))
        elif c < 0.87:
            pn = g.mant(g.bits(p), p) * r.choice([1, -1])
            qn = g.mant(g.bits(p), p)
            lvl = r.choice(["libmp", "oper"])
            out.append(case("from_rational", lvl, [A_q(pn, qn)], p, "n" if lvl == "oper" else rnd))
        elif c < 0.9:
            fl = r.choice([0.1, -2.5, 1e300, 5e-324, 2.2250738585072014e-308, 1.7976931348623157e308,
                           float("inf"), float("-inf"), r.random() * 2 ** r.randint(-1000, 1000), -0.0])
            lvl = r.choice(["libmp", "ctor"])
            out.append(case("from_float", lvl, [A_d(fl)], p, rnd))
        elif c < 0.94:
            op = r.choice(["mulint", "rdivint"])
            x = g.mpf(p)
            n_ = r.choice([0, 1, -1, 3, 1023, 1024, -7]) if r.random() < 0.5 else g.mant(g.bits(p), p) * r.choice([1, -1])
            args = [A_f(x), A_z(n_)] if op == "mulint" else [A_z(n_), A_f(x)]
            out.append(case(op, "libmp", args, p, rnd))
        else:
            # fsum / fdot under the stated side condition: terms <= p bits, magnitudes span < p bits
            k = r.randint(1, 8)
            top = r.randint(-50, 50)
            terms = []
            for _ in range(k):
                nb = r.randint(1, p)
                m = g.mant(nb, p) * r.choice([1, -1])
                span = r.randint(0, max(0, p - 1))
                terms.append(gen.mk(m, top - span - nb))
            if r.random() < 0.6:
                lvl = r.choice(["libmp", "oper"])
                out.append(case("sum", lvl, [A_l([A_f(t) for t in terms])], p, "n" if lvl == "oper" else rnd))
            else:
                ys = [gen.mk(g.mant(r.randint(1, 4), p) * r.choice([1, -1]), r.randint(-2, 2)) for _ in terms]
                # products must still satisfy the side condition: few-bit multipliers, p bits in total
                terms2 = [gen.mk(g.mant(r.randint(1, max(1, p - 4)), p) * r.choice([1, -1]), top - r.randint(0, 3)) for _ in terms]
                out.append(case("dot", "oper", [A_l([A_f(t) for t in terms2]), A_l([A_f(t) for t in ys])], p, "n"))
    return out


def side_ok(c):
    """C02's side condition for fsum/fdot is enforced by construction for 'sum'; for 'dot' the
    exact products may exceed p bits, which the statement excludes -- keep only conforming cases."""
    if c["op"] != "dot":
        return True
    p = c["p"]
    xs, ys = c["args"][0][1], c["args"][1][1]
    prods = []
    for x, y in zip(xs, ys):
        if x[2] == 0 or y[2] == 0:
            continue
        m = x[2] * y[2]
        prods.append((m.bit_length(), x[3] + y[3]))
    if not prods:
        return True
    if any(b > p for b, _ in prods):
        return False
    tops = [b + e for b, e in prods]
    lows = [e for _, e in prods]
    return max(tops) - min(lows) < p


def nontrivial(c, ev):
    """an event is non-trivial when both operands are finite nonzero and the outcome is a finite
    nonzero number (so a rounding decision or an exact-fit decision was actually made)"""
    o = ev["o"]
    return o["k"] == "f" and len(o["m"]) > 0 and all(a.get("k") != "f" or len(a["m"]) > 0 for a in ev["a"])


def key_of(c, clauses):
    sig = ""
    if c["op"] in ("add", "sub") and all(a[0] == "f" for a in c["args"]):
        x, y = c["args"]
        if x[2] and y[2]:
            big, small = (x, y) if x[3] + x[4] >= y[3] + y[4] else (y, x)
            if big[4] > c["p"] and abs(x[3] - y[3]) > 100:
                sig = "/bc>prec&gap>100"
    return "%s/%s/%s%s" % (c["op"], c["lvl"], "+".join(sorted(clauses)), sig)


def run_events(chk, cs, runner, judge_clause="post"):
    events, kept = [], []
    for i, c in enumerate(cs):
        out = runner.run(c)
        try:
            ev = cases.to_event(i, c, out)
        except (enc.EncodeRange, TypeError):
            continue
        events.append(ev); kept.append((i, c))
    bad = tlc.judge(events, tag=chk.prop)
    byid = dict(kept)
    for ev in events:
        c = byid[ev["id"]]
        chk.count()
        chk.distinct((c["op"], c["lvl"], c["args"], c["p"], c["r"]), nontrivial(c, ev))
    chk.add_traces(len(events))
    return events, bad, byid


def main():
    chk = core.Check(PROP, "model_checking")
    mp = core.use_repo()
    runner = cases.Runner(mp)
    # --- M1: the oracle's lemmas ---
    res = tlc.run_model("RoundingLemmas", chk.pick("RoundingLemmas_quick.cfg", "RoundingLemmas_thorough.cfg"))
    if not res["ok"]:
        chk.machinery("RoundingLemmas did not pass: %s\n%s" % (res.get("violated"), res["output"][-2000:]))
    chk.add_model(res, "RoundingLemmas")
    # --- M3 ---
    g = gen.G(chk.seed * 1000003 + 2)
    n = chk.pick(6000, 120000)
    cs = [c for c in gen_cases(g, n) if side_ok(c)]
    for k in chk.known:                     # pinned representatives of known findings
        pass
    events, bad, byid = run_events(chk, cs, runner)
    for ev in events[:3]:
        chk.sample({"case": byid[ev["id"]], "outcome": ev["o"]})
    for i, clauses in sorted(bad.items()):
        if "post" in clauses:
            c = byid[i]
            chk.violation(key_of(c, ["post"]), "correct rounding violated for %s via %s at prec %d mode %s" % (
                c["op"], c["lvl"], c["p"], c["r"]), c)
    chk.cov["rule"] = ("seeded biased generator over add/sub/mul/div/sqrt/neg/abs/pos/constructors/fsum/fdot at four "
                       "entry levels; distinct = distinct (op, level, args, prec, mode); non-trivial = finite nonzero "
                       "operands and finite nonzero result")
    chk.assumptions += ["TLC evaluator and CommunityModules Json", "ZLimb (model-checked against native ints in ZLimbCheck)",
                        "exponents |e| < 2^30 (larger ones are dropped by the encoder)"]
    chk.finish()


def replay(path):
    import json
    chk = core.Check(PROP, "model_checking")
    mp = core.use_repo()
    runner = cases.Runner(mp)
    c = json.load(open(path))["replay"]
    events, bad, byid = run_events(chk, [c], runner)
    print("case:", c)
    print("outcome:", events[0]["o"] if events else None)
    print("verdict:", bad)
    if bad:
        print("VIOLATION property=%s replay=%s" % (PROP, path))
        raise SystemExit(1)
    raise SystemExit(0)
