"""C02 -- basic real arithmetic is correctly rounded in every rounding mode.

M1: RoundingLemmas (the oracle's checker and functional forms agree on a small universe).
M3: real-size events through four entry levels (libmp function, operator, f-function with
    prec/rounding/exact keywords, constructor), each judged by TLC with MpfPost on limbs."""
from .. import selftest, machine, core, gen, cases, arith
from . import common

PROP = "C02"; LEVEL = "model_checking"


def main():
    chk = core.Check(PROP, LEVEL)
    mp = core.use_repo()
    runner = cases.Runner(mp)
    common.run_models(chk, [("RoundingLemmas", "RoundingLemmas_quick.cfg", "RoundingLemmas_thorough.cfg")])
    selftest.corrupt_arith(chk, runner)
    selftest.model_mutants(chk, [("MpfMachine", "MpfMachine_mutG.cfg", "AlgoMeetsPost"), ("MpfMachine", "MpfMachine_mutDX.cfg", "AlgoMeetsPost")])
    machine.run(chk, mp)
    machine.run_unary(chk, mp, [("MpfMachine", "MpfMachine_sqrt_%s.cfg" % chk.pick("quick", "thorough"), "exact", True)]
                      + chk.pick([], [("MpfMachineL", "MpfMachineL_sqrt.cfg", "real", True)]))
    g = gen.G(chk.seed * 1000003 + 2)
    cs = arith.group_c02(g, chk.pick(5000, 120000))
    common.judge_cases(chk, cs, runner, "post", "correct rounding violated")
    chk.cov["rule"] = ("seeded biased generator over add/sub/mul/div/sqrt/neg/abs/pos/constructors/fsum/fdot at four "
                       "entry levels; distinct = distinct (op, level, args, prec, mode); non-trivial = finite nonzero "
                       "operands and finite nonzero result")
    chk.assumptions += ["TLC evaluator and CommunityModules Json", "ZLimb (model-checked against native ints in ZLimbCheck)",
                        "exponents |e| < 2^30 (larger ones are dropped by the encoder)"]
    chk.finish()


def replay(path):
    common.replay(PROP, LEVEL, path, "post")
