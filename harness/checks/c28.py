"""C28 -- numerical differentiation, Taylor and Pade results are accurate.

[E]: diff / diffs / diffun / taylor of polynomials with rational coefficients at rational points
(exact derivative from Oblig!PolyDer), partial derivatives of bivariate polynomials, difference(s, n)
against the exact forward difference (binomial sum evaluated by TLC), differint of a monomial at
negative integer order (iterated integral, exact), and pade(a, L, M): the series of p - a*q vanishes
through order L+M and q(0) = 1, checked exactly on the returned coefficients."""
import fractions
from .. import ex
from . import oblcommon

PROP = "C28"; LEVEL = "exploration"
Fr = fractions.Fraction


def gen(chk, mpmath, rng):
    mp = mpmath.mp
    for i in range(chk.pick(300, 8000)):
        p = rng.choice([40, 53, 53, 90, 150])
        mp.prec = p
        deg = rng.randint(0, 8)
        cs = [Fr(rng.randint(-9, 9), rng.choice([1, 2, 4])) for _ in range(deg + 1)]
        x = Fr(rng.randint(-8, 8), rng.choice([1, 2, 4, 8]))
        X = mp.mpf(x.numerator) / x.denominator
        f = lambda t: sum((mp.mpf(c.numerator) / c.denominator) * t ** k for k, c in enumerate(cs))
        c = rng.random()
        try:
            if c < 0.35:
                n = rng.randint(0, 5)
                kw = rng.choice([{}, {"method": "quad"}, {"direction": 1}, {"direction": -1}])
                got = mp.diff(f, X, n, **kw)
                tol = 10 if not kw.get("method") else 14
                yield ex.relabs_close(got, ex.polyder(cs, x, n), tol + 4 * n, p), {"key": "diff/poly", "cs": [str(q) for q in cs], "x": str(x), "n": n, "kw": str(kw), "p": p,
                                                                                  "what": "derivative of a polynomial differs from the exact value"}
            elif c < 0.5:
                n = rng.randint(1, 5)
                ds = mp.diffs(f, X, n)
                js = [ex.relabs_close(d, ex.polyder(cs, x, k), 10 + 4 * k, p) for k, d in zip(range(n + 1), ds)]
                yield ex.allj(*js), {"key": "diffs/poly", "cs": [str(q) for q in cs], "x": str(x), "n": n, "p": p, "what": "diffs of a polynomial differ from the exact derivatives"}
            elif c < 0.65:
                n = rng.randint(0, 6)
                tc = mp.taylor(f, X, n)
                js = [ex.relabs_close(t, ex.div(ex.polyder(cs, x, k), ex.seqn("fact", k)), 10 + 4 * k, p) for k, t in enumerate(tc)]
                yield ex.allj(*js), {"key": "taylor/poly", "cs": [str(q) for q in cs], "x": str(x), "n": n, "p": p, "what": "taylor coefficients of a polynomial differ from the exact ones"}
            elif c < 0.75:
                n = rng.randint(0, 8); m = n + rng.randint(0, 5)
                svals = [rng.randint(-1000, 1000) for _ in range(m + 1)]
                got = mp.difference([mp.mpf(v) for v in svals], n)
                exact = ex.add(*[ex.mul((-1) ** (n - k), ex.seqnk("binom", n, k), svals[k]) for k in range(n + 1)])
                yield ex.relabs_close(got, exact, 4, p), {"key": "difference", "s": svals[:n + 1], "n": n, "p": p, "what": "difference(s, n) differs from the exact forward difference"}
            elif c < 0.85:
                # partial derivative of x^a y^b
                a, b = rng.randint(0, 4), rng.randint(0, 4); i_, j_ = rng.randint(0, 2), rng.randint(0, 2)
                y = Fr(rng.randint(-5, 5), 2); Y = mp.mpf(y.numerator) / y.denominator
                got = mp.diff(lambda s, t: s ** a * t ** b, (X, Y), (i_, j_))
                ca = [0] * a + [1]; cb = [0] * b + [1]
                yield ex.relabs_close(got, ex.mul(ex.polyder(ca, x, i_), ex.polyder(cb, y, j_)), 12 + 4 * (i_ + j_), p), {"key": "diff/partial", "a": a, "b": b, "ij": [i_, j_], "x": str(x), "y": str(y), "p": p,
                                                                                                                       "what": "partial derivative of a monomial differs from the exact value"}
            elif c < 0.93:
                # pade: order conditions on the returned coefficients
                L, M = rng.randint(0, 4), rng.randint(0, 4)
                a = [Fr(rng.randint(-9, 9) or 1, rng.choice([1, 2, 3])) for _ in range(L + M + 1)]
                if a[0] == 0:
                    a[0] = Fr(1)
                pq = mp.pade([mp.mpf(q.numerator) / q.denominator for q in a], L, M)
                pc, qc = list(pq[0]), list(pq[1])
                js = [ex.abs_close(qc[0], 1, 2, p)]
                scale = ex.mx(*[ex.ab(v) for v in pc + qc], 1)
                for m_ in range(L + M + 1):
                    pm = pc[m_] if m_ < len(pc) else 0
                    conv = ex.add(*[ex.mul(ex.Qf(a[m_ - j]), qc[j]) for j in range(0, min(m_, len(qc) - 1) + 1)])
                    js.append(ex.le(ex.ab(ex.sub(pm, conv)), ex.mul(ex.pow2(20 - p), scale, ex.mx(*[ex.ab(ex.Qf(q)) for q in a]))))
                yield ex.allj(*js), {"key": "pade/order", "a": [str(q) for q in a], "L": L, "M": M, "p": p, "what": "pade(a, L, M): the series of p - a*q does not vanish through order L+M"}
            else:
                # differint of x^k with order -1: integral from 0 to x
                k = rng.randint(0, 6)
                xx = Fr(rng.randint(1, 9), 2); XX = mp.mpf(xx.numerator) / xx.denominator
                got = mp.differint(lambda t: t ** k, XX, -1)
                yield ex.relabs_close(got, ex.div(ex.powi(ex.Qf(xx), k + 1), k + 1), 12, p), {"key": "differint/-1", "k": k, "x": str(xx), "p": p, "what": "differint of x^k at order -1 differs from x^(k+1)/(k+1)"}
        except (ZeroDivisionError, ValueError, TypeError):
            yield None


def main():
    oblcommon.run(PROP, LEVEL, gen,
                  "seeded polynomials / sequences / series with rational data; distinct = (problem, parameters, precision)",
                  ["numerical differentiation of order n is granted 4n extra bits of tolerance (step-size loss documented for diff)",
                   "entire functions (exp, sin, cos) need the series oracle (RealFun)"])


replay = oblcommon.replay
