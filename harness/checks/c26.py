"""C26 -- numerical integration is accurate for well-behaved integrands.

[E]: polynomials and rational power integrands with rational coefficients / endpoints on finite
intervals (1-3 dimensions, quad / quadts / quadgl, interior split points): the exact integral is
computed by TLC (Oblig!PolyInt and closed forms written as exact expressions); tolerance 2^(10-p)
relative or absolute.  [R]: reversal negates, splitting does not change, tanh-sinh and
Gauss-Legendre agree -- obligations between outputs.  Node caches are exercised by interleaving
intervals, degrees and precisions (C33 compares with a fresh process)."""
import fractions
from .. import ex
from . import oblcommon

PROP = "C26"; LEVEL = "exploration"
Fr = fractions.Fraction


def gen(chk, mpmath, rng):
    mp = mpmath.mp
    for kf in [k for k in chk.known if k.get("status") == "known" and "rep" in k]:
        rep = kf["rep"]; p = rep["p"]; mp.prec = p
        got = mp.quadgl(lambda x: x ** rep["k"] * mp.exp(-x), [0, mp.inf])
        yield ex.relabs_close(got, ex.seqn("fact", rep["k"]), 10, p), {"pinned": kf["key"], "key": "analytic/x^k e^-ax/quadgl/p>=150", "k": rep["k"], "p": p, "what": "pinned representative"}
        mp.prec = 53
    for i in range(chk.pick(260, 1500)):
        p = rng.choice([30, 53, 53, 80, 120, rng.randint(30, 300)])
        mp.prec = p
        deg = rng.randint(0, 9)
        cs = [Fr(rng.randint(-9, 9), rng.choice([1, 2, 3])) for _ in range(deg + 1)]
        a = Fr(rng.randint(-6, 6), rng.choice([1, 2, 4])); b = a + Fr(rng.randint(1, 12), rng.choice([1, 2, 4]))
        A, B = mp.mpf(a.numerator) / a.denominator, mp.mpf(b.numerator) / b.denominator
        f = lambda x: sum((mp.mpf(c.numerator) / c.denominator) * x ** k for k, c in enumerate(cs))
        kind = rng.random()
        try:
            if rng.random() < 0.3:
                # analytic non-polynomial integrands with RATIONAL integrals, at higher precisions as well (these need the higher
                # quadrature degrees): gamma-type integrals on [0, inf], algebraic tails on [1, inf], endpoint singularities on [0, 1]
                p = rng.choice([53, 120, 150, 200, 300, 500]); mp.prec = p
                which = rng.choice(["x^k e^-ax", "x^k e^-ax", "x^(2j+1) e^-x^2", "x^(2j+1) e^-x^2", "x^-s tail", "x^(m/n)", "x^k log x", "1/(x+c)^k tail", "1/(x+c)^k finite", "1/(x+c)^k finite"])
                # Gauss-Legendre is documented for smooth integrands only: algebraic / logarithmic endpoint behaviour (also at
                # infinity, after the interval transformation) is left to tanh-sinh
                # Exponentially decaying integrands on [0, inf] are in the statement for Gauss-Legendre as well (known finding at p >= 150).
                meth = rng.choice(["quad", "quadts", "quadgl"]) if which in ("x^k e^-ax", "x^(2j+1) e^-x^2") else rng.choice(["quad", "quadts"])
                k = rng.randint(0, 6)
                if which == "x^k e^-ax":
                    aq = Fr(rng.randint(1, 6), rng.choice([1, 2]))
                    aa = mp.mpf(aq.numerator) / aq.denominator
                    got = getattr(mp, meth)(lambda x: x ** k * mp.exp(-aa * x), [0, mp.inf])
                    exact = ex.div(ex.seqn("fact", k), ex.powi(ex.Qf(aq), k + 1))
                elif which == "x^(2j+1) e^-x^2":
                    # Gaussian-type integrands with rational integrals: int_0^inf x^(2j+1) exp(-x^2) dx = j! / 2
                    j = rng.randint(0, 4)
                    got = getattr(mp, meth)(lambda x: x ** (2 * j + 1) * mp.exp(-x * x), [0, mp.inf])
                    exact = ex.div(ex.seqn("fact", j), 2)
                elif which == "x^-s tail":
                    sq = Fr(rng.randint(5, 12), 2)          # x^-3/2 decays too slowly to count as well-behaved (observed error ~ sqrt(eps) on the unchanged tree)
                    ss = mp.mpf(sq.numerator) / sq.denominator
                    got = getattr(mp, meth)(lambda x: x ** (-ss), [1, mp.inf])
                    exact = ex.div(1, ex.sub(ex.Qf(sq), 1))
                elif which == "x^(m/n)":
                    eq_ = Fr(rng.randint(1, 7), rng.choice([2, 3, 4]))
                    ee = mp.mpf(eq_.numerator) / eq_.denominator
                    got = getattr(mp, meth)(lambda x: x ** ee, [0, 1])
                    exact = ex.div(1, ex.add(ex.Qf(eq_), 1))
                elif which == "x^k log x":
                    got = getattr(mp, meth)(lambda x: x ** k * mp.log(x), [0, 1])
                    exact = ex.neg(ex.div(1, ex.sq(ex.Z(k + 1))))
                elif which == "1/(x+c)^k finite":
                    # smooth on a finite interval: all three methods, Gauss-Legendre included
                    meth = rng.choice(["quad", "quadts", "quadgl"])
                    cq = Fr(rng.randint(1, 5)); kk = rng.randint(2, 6); bq = Fr(rng.randint(1, 12), rng.choice([1, 2]))
                    got = getattr(mp, meth)(lambda x: 1 / (x + cq.numerator) ** kk, [0, mp.mpf(bq.numerator) / bq.denominator])
                    exact = ex.div(ex.sub(ex.powi(ex.Qf(cq), 1 - kk), ex.powi(ex.Qf(bq + cq), 1 - kk)), kk - 1)
                else:
                    cq = Fr(rng.randint(1, 5)); kk = rng.randint(2, 5)
                    got = getattr(mp, meth)(lambda x: 1 / (x + cq.numerator) ** kk, [0, mp.inf])
                    exact = ex.div(1, ex.mul(kk - 1, ex.powi(ex.Qf(cq), kk - 1)))
                band = "/p>=150" if meth == "quadgl" and which in ("x^k e^-ax", "x^(2j+1) e^-x^2") and p >= 150 else ""
                yield ex.relabs_close(got, exact, 10, p), {"key": "analytic/%s/%s%s" % (which, meth, band), "k": k, "p": p, "what": "integral with a rational closed form differs from it by more than 2^(10-p)"}
                continue
            if kind < 0.45:
                meth = rng.choice(["quad", "quadts", "quadgl"])
                pts = [A, B]
                if rng.random() < 0.4:
                    pts = [A, (A + B) / 2, B] if rng.random() < 0.5 else [A, A + (B - A) / 4, A + (B - A) / 2, B]
                got = getattr(mp, meth)(f, pts)
                yield ex.relabs_close(got, ex.polyint(cs, a, b), 10, p), {"key": "poly/" + meth, "cs": [str(c) for c in cs], "a": str(a), "b": str(b), "p": p, "npts": len(pts),
                                                                          "what": "integral of a polynomial differs from the exact value"}
            elif kind < 0.6:
                # x^-m on [a, b] with 0 < a: closed form (b^(1-m) - a^(1-m)) / (1 - m)
                m = rng.randint(2, 6)
                a2 = Fr(rng.randint(1, 8), rng.choice([1, 2])); b2 = a2 + Fr(rng.randint(1, 9), 2)
                got = mp.quad(lambda x: x ** (-m), [mp.mpf(a2.numerator) / a2.denominator, mp.mpf(b2.numerator) / b2.denominator])
                exact = ex.div(ex.sub(ex.powi(ex.Qf(b2), 1 - m), ex.powi(ex.Qf(a2), 1 - m)), 1 - m)
                yield ex.relabs_close(got, exact, 10, p), {"key": "power/quad", "m": m, "a": str(a2), "b": str(b2), "p": p, "what": "integral of x^-m differs from the closed form"}
            elif kind < 0.72:
                # two dimensions, separable polynomial: product of one-dimensional integrals
                cs2 = [Fr(rng.randint(-5, 5)) for _ in range(rng.randint(1, 4))]
                g = lambda y: sum(mp.mpf(c.numerator) * y ** k for k, c in enumerate(cs2))
                got = mp.quad(lambda x, y: f(x) * g(y), [A, B], [0, 1])
                yield ex.relabs_close(got, ex.mul(ex.polyint(cs, a, b), ex.polyint(cs2, 0, 1)), 10, p), {"key": "poly2d/quad", "cs": [str(c) for c in cs], "cs2": [str(c) for c in cs2], "p": p,
                                                                                                         "what": "2-d integral of a separable polynomial differs from the exact value"}
            elif kind < 0.86:
                # reversal negates; splitting does not change (relations between outputs)
                v1 = mp.quad(f, [A, B]); v2 = mp.quad(f, [B, A])
                yield ex.anyj(ex.le(ex.ab(ex.add(v1, v2)), ex.mul(ex.pow2(10 - p), ex.mx(ex.ab(v1), 1))), ex.eq(0, 1)), {"key": "reversal/quad", "cs": [str(c) for c in cs], "p": p,
                                                                                                                      "what": "reversing the limits does not negate the integral"}
                v3 = mp.quad(f, [A, (2 * A + B) / 3, B])
                yield ex.le(ex.ab(ex.sub(v1, v3)), ex.mul(ex.pow2(10 - p), ex.mx(ex.ab(v1), 1))), {"key": "splitting/quad", "cs": [str(c) for c in cs], "p": p,
                                                                                                   "what": "splitting the interval changes the integral"}
            else:
                v1 = mp.quadts(f, [A, B]); v2 = mp.quadgl(f, [A, B])
                yield ex.le(ex.ab(ex.sub(v1, v2)), ex.mul(ex.pow2(10 - p), ex.mx(ex.ab(v1), 1))), {"key": "ts-vs-gl", "cs": [str(c) for c in cs], "p": p,
                                                                                                   "what": "tanh-sinh and Gauss-Legendre disagree"}
        except (ZeroDivisionError, ValueError, TypeError):
            yield None


def main():
    oblcommon.run(PROP, LEVEL, gen,
                  "seeded polynomial / power integrands with rational data, 1-2 dimensions, split points, three methods; distinct = (integrand, interval, method, precision)",
                  ["exponential / trigonometric / infinite-interval integrands need the series oracle (RealFun) and are judged relationally only"])


replay = oblcommon.replay
