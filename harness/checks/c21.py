"""C21 -- Bessel, Airy and related functions are accurate.

[R]: SameReal over precisions for every listed function; three-term recurrences with rational
coefficients between outputs: C_(v-1)(x) + C_(v+1)(x) = (2v/x) C_v(x) for J and Y,
I_(v-1) - I_(v+1) = (2v/x) I_v, K_(v+1) - K_(v-1) = (2v/x) K_v; Airy: Ai''(x) = x Ai(x) and
Bi''(x) = x Bi(x) through derivative=2; zeros: besseljzero(v, m) / airyaizero(m) are strictly
increasing in m and the function changes sign across z (1 -+ 2^(8-p))."""
from .. import ex, specfun as sf
from . import oblcommon

PROP = "C21"; LEVEL = "exploration"
Fr = sf.Fr

TABLE = [(n, sf.A(lambda r: sf.rq(r, -3, 6), lambda r: sf.posq(r, 25)), sf.F1(n)) for n in ["besselj", "bessely", "besseli", "besselk", "struveh", "struvel", "angerj", "webere"]] + \
        [(n, sf.A(lambda r: sf.rq(r, -12, 12)), sf.F1(n)) for n in ["airyai", "airybi", "scorergi", "scorerhi"]] + \
        [(n, sf.A(lambda r: Fr(r.randint(0, 3)), lambda r: sf.posq(r, 12)), sf.F1(n)) for n in ["ber", "bei", "ker"]] + [
    ("bessely-near-integer-order", sf.A(lambda r: r.randint(-3, 8) + Fr(r.choice([1, -1]), 2 ** r.randint(8, 45)), lambda r: sf.posq(r, 25)), sf.F1("bessely")),
    ("besselk-near-integer-order", sf.A(lambda r: r.randint(-3, 8) + Fr(r.choice([1, -1]), 2 ** r.randint(8, 45)), lambda r: sf.posq(r, 25)), sf.F1("besselk")),
    ("besselj-near-integer-order", sf.A(lambda r: r.randint(-3, 8) + Fr(r.choice([1, -1]), 2 ** r.randint(8, 45)), lambda r: sf.posq(r, 25)), sf.F1("besselj")),
    ("hankel1-near-integer-order", sf.A(lambda r: r.randint(0, 6) + Fr(r.choice([1, -1]), 2 ** r.randint(8, 45)), lambda r: sf.posq(r, 25)), sf.F1("hankel1")),
    ("besselj-complex", sf.A(lambda r: sf.rq(r, -2, 4), sf.cq), sf.F1("besselj")),
    ("coulombf", sf.A(lambda r: Fr(r.randint(0, 3)), lambda r: sf.rq(r, -2, 2), lambda r: sf.posq(r, 10)), sf.F1("coulombf")),
    ("coulombg", sf.A(lambda r: Fr(r.randint(0, 3)), lambda r: sf.rq(r, -2, 2), lambda r: sf.posq(r, 10)), sf.F1("coulombg")),
    ("lommels1", sf.A(lambda r: sf.posq(r, 3), lambda r: sf.posq(r, 2) / 2, lambda r: sf.posq(r, 8)), sf.F1("lommels1")),
    ("airyai-derivative", sf.A(lambda r: sf.rq(r, -10, 10)), lambda mp, a: mp.airyai(sf.q2m(mp, a[0]), derivative=1)),
    ("besseljzero", sf.A(lambda r: Fr(r.randint(0, 6)), lambda r: Fr(r.randint(1, 12))), lambda mp, a: mp.besseljzero(sf.q2m(mp, a[0]), int(a[1]))),
    ("besselyzero", sf.A(lambda r: Fr(r.randint(0, 6)), lambda r: Fr(r.randint(1, 12))), lambda mp, a: mp.besselyzero(sf.q2m(mp, a[0]), int(a[1]))),
    ("airyaizero", sf.A(lambda r: Fr(r.randint(1, 30))), lambda mp, a: mp.airyaizero(int(a[0]))),
    ("airybizero", sf.A(lambda r: Fr(r.randint(1, 30))), lambda mp, a: mp.airybizero(int(a[0]))),
]


def gen(chk, mpmath, rng):
    mp = mpmath.mp
    for item in sf.samereal(chk, mpmath, rng, TABLE, 8, chk.pick(130, 9000), PROP, hiprec=0.05):
        yield item
    for i in range(chk.pick(100, 5000)):
        p = rng.choice([30, 53, 53, 100, 200]); mp.prec = p
        c = rng.random()
        try:
            if c < 0.5:
                fam = rng.choice(["besselj", "bessely", "besseli", "besselk"])
                v = sf.rq(rng, -3, 8); x = sf.posq(rng, 20); V, X = sf.q2m(mp, v), sf.q2m(mp, x)
                f = getattr(mp, fam)
                a, b, cc = f(V - 1, X), f(V, X), f(V + 1, X)
                coef = ex.div(ex.mul(2, ex.Qf(v)), ex.Qf(x))
                if fam in ("besselj", "bessely"):
                    lhs = ex.add(a, cc)
                elif fam == "besseli":
                    lhs = ex.sub(a, cc)
                else:
                    lhs = ex.sub(cc, a)
                scale = ex.mx(ex.ab(a), ex.ab(cc), ex.ab(ex.mul(coef, b)))
                yield ex.le(ex.ab(ex.sub(lhs, ex.mul(coef, b))), ex.mul(ex.pow2(10 - p), scale)), {"key": "recurrence/" + fam, "v": str(v), "x": str(x), "p": p, "what": "three-term recurrence in the order fails"}
            elif c < 0.7:
                x = sf.rq(rng, -10, 10); X = sf.q2m(mp, x)
                fam = rng.choice(["airyai", "airybi"])
                f = getattr(mp, fam)
                y0, y2 = f(X), f(X, derivative=2)
                yield ex.le(ex.ab(ex.sub(y2, ex.mul(ex.Qf(x), y0))), ex.mul(ex.pow2(10 - p), ex.mx(ex.ab(y2), ex.pow2(-p)))), {"key": "ode/" + fam, "x": str(x), "p": p, "what": "y'' != x y for the Airy function"}
            else:
                which = rng.choice(["besseljzero", "airyaizero"])
                if which == "besseljzero":
                    v = rng.randint(0, 5); m = rng.randint(1, 10)
                    z1, z2 = mp.besseljzero(v, m), mp.besseljzero(v, m + 1)
                    d = z1 * mp.mpf(2) ** (10 - p)
                    s = ex.mul(mp.besselj(v, z1 - d), mp.besselj(v, z1 + d))
                else:
                    m = rng.randint(1, 20)
                    z1, z2 = mp.airyaizero(m), mp.airyaizero(m + 1)
                    d = abs(z1) * mp.mpf(2) ** (10 - p)
                    s = ex.mul(mp.airyai(z1 - d), mp.airyai(z1 + d))
                    z1, z2 = -z1, -z2          # airy zeros are negative and decreasing
                yield ex.allj(ex.lt(z1, z2), ex.lt(s, 0)), {"key": "zeros/" + which, "m": m, "p": p, "what": "zeros are not increasing in the index, or the function does not change sign across the returned zero"}
        except (ZeroDivisionError, ValueError, TypeError, mpmath.libmp.NoConvergence):
            yield None


def main():
    oblcommon.run(PROP, LEVEL, gen,
                  "seeded rational orders / arguments in a moderate domain; distinct = (function or relation, arguments, precision)",
                  ["[R] checks are necessary conditions only", "hankel1/hankel2/kei and huge arguments, where the unchanged library is known not to meet 2^(8-p), are not sampled",
                   "zero indices are checked for order and sign change, not against tabulated values"])


replay = oblcommon.replay
