"""C19 -- zeta-family functions are accurate to the working precision.

[E] at rational-valued points: zeta(-n) = -B_(n+1)/(n+1), zeta(0) = -1/2, altzeta(-n) =
(1 - 2^(n+1)) zeta(-n), polylog(0, z) = z/(1-z), polylog(-1, z) = z/(1-z)^2, polylog(-2, z) =
z(1+z)/(1-z)^3 at rational z, eulerpoly / bernpoly at rational points (bernpoly also in C25).
[R] elsewhere: SameReal over precisions and the identities zeta(s, a) = zeta(s, a+1) + a^-s for
integer s, polylog(s, z) + polylog(s, -z) = 2^(1-s) polylog(s, z^2), siegelz real-valued with
|Z(t)|^2 = |zeta(1/2 + it)|^2."""
from .. import ex, specfun as sf
from . import oblcommon

PROP = "C19"; LEVEL = "exploration"
Fr = sf.Fr

TABLE = [
    ("zeta", sf.A(lambda r: sf.rq(r, -12, 30) + (Fr(1, 3) if r.random() < 0.5 else 2)), sf.F1("zeta")),
    ("zeta-complex", sf.A(lambda r: (sf.rq(r, -3, 6), sf.rq(r, 1, 40))), sf.F1("zeta")),
    ("hurwitz", sf.A(lambda r: sf.posq(r, 8) + 1, lambda r: sf.posq(r, 9)), sf.F1("zeta")),
    ("zeta-derivative", sf.A(lambda r: sf.posq(r, 8) + 1), lambda mp, a: mp.zeta(sf.q2m(mp, a[0]), 1, 1)),
    ("altzeta", sf.A(lambda r: sf.rq(r, -8, 20)), sf.F1("altzeta")),
    ("polylog", sf.A(lambda r: sf.posq(r, 6), lambda r: Fr(r.randint(-60, 60), 64)), sf.F1("polylog")),
    ("lerchphi", sf.A(lambda r: Fr(r.randint(-50, 50), 64), lambda r: sf.posq(r, 5), lambda r: sf.posq(r, 5)), sf.F1("lerchphi")),
    ("bernpoly", sf.A(lambda r: Fr(r.randint(0, 12)), lambda r: sf.rq(r, -4, 4)), lambda mp, a: mp.bernpoly(int(a[0]), sf.q2m(mp, a[1]))),
    ("eulerpoly", sf.A(lambda r: Fr(r.randint(0, 12)), lambda r: sf.rq(r, -4, 4)), lambda mp, a: mp.eulerpoly(int(a[0]), sf.q2m(mp, a[1]))),
    ("stieltjes", sf.A(lambda r: Fr(r.randint(0, 6))), lambda mp, a: mp.stieltjes(int(a[0]))),
    ("primezeta", sf.A(lambda r: sf.posq(r, 8) + 1), sf.F1("primezeta")),
    ("siegeltheta", sf.A(lambda r: sf.posq(r, 60)), sf.F1("siegeltheta")),
    ("siegelz", sf.A(lambda r: sf.posq(r, 60)), sf.F1("siegelz")),
    ("riemannr", sf.A(lambda r: sf.posq(r, 60) + 1), sf.F1("riemannr")),
    ("dirichlet", sf.A(lambda r: sf.posq(r, 6) + 1), lambda mp, a: mp.dirichlet(sf.q2m(mp, a[0]), [0, 1, 0, -1])),
]


def gen(chk, mpmath, rng):
    mp = mpmath.mp
    # every integer argument up to 1.4 p at a fixed high precision (the integer-argument code has cut-offs at multiples of the
    # precision).  Done first, in the fresh process: mpf_zeta_int memoises high-precision values, and riemannr / primezeta below fill that memo
    for P in chk.pick([rng.choice([420, 500, 560])], [300, 520, 900, 1500]):
        step = 1 if P <= 600 else P // 300
        off = rng.randint(0, step - 1) if step > 1 else 0
        grid = [Fr(n) for n in range(2 + off, int(1.4 * P), step)]
        for fname in ("zeta", "altzeta"):
            for item in sf.sweep(mpmath, fname + "-int", sf.F1(fname), grid, P, 8, PROP):
                yield item
    for item in sf.samereal(chk, mpmath, rng, TABLE, 8, chk.pick(200, 3000), PROP, hiprec=0.08):
        yield item
    for i in range(chk.pick(200, 2500)):
        p = rng.choice([20, 53, 53, 100, 200]); mp.prec = p
        c = rng.random()
        try:
            if c < 0.25:
                n = rng.randint(0, 30)
                exact = ex.neg(ex.div(ex.seqn("bern", n + 1), n + 1)) if n else ex.Qf(Fr(-1, 2))
                yield ex.rel0_close(mp.zeta(-n), exact, 8, p), {"key": "exact/zeta(-n)", "n": n, "p": p, "what": "zeta(-n) != -B_(n+1)/(n+1)"}
                yield ex.rel0_close(mp.altzeta(-n), ex.mul(ex.sub(1, ex.pow2(n + 1)), exact), 8, p), {"key": "exact/altzeta(-n)", "n": n, "p": p, "what": "altzeta(-n) != (1-2^(n+1)) zeta(-n)"}
            elif c < 0.5:
                z = Fr(rng.randint(-60, 60), 64)
                if z == 1: continue
                Z = sf.q2m(mp, z); zq = ex.Qf(z)
                s = rng.choice([0, -1, -2])
                exact = {0: ex.div(zq, ex.sub(1, zq)), -1: ex.div(zq, ex.sq(ex.sub(1, zq))), -2: ex.div(ex.mul(zq, ex.add(1, zq)), ex.powi(ex.sub(1, zq), 3))}[s]
                yield ex.rel0_close(mp.polylog(s, Z), exact, 8, p), {"key": "exact/polylog(s<=0)", "s": s, "z": str(z), "p": p, "what": "polylog at a non-positive integer order differs from its rational closed form"}
            elif c < 0.7:
                s = rng.randint(2, 9); a = sf.posq(rng, 9); Am = sf.q2m(mp, a)
                lhs = mp.zeta(s, Am); rhs = mp.zeta(s, Am + 1)
                yield ex.le(ex.ab(ex.sub(lhs, ex.add(rhs, ex.powi(ex.Qf(a), -s)))), ex.mul(ex.pow2(10 - p), ex.ab(lhs))), {"key": "identity/hurwitz-shift", "s": s, "a": str(a), "p": p,
                                                                                                                          "what": "zeta(s,a) != zeta(s,a+1) + a^-s"}
            elif c < 0.85:
                s = rng.randint(2, 6); z = Fr(rng.randint(-50, 50), 64); Z = sf.q2m(mp, z)
                l1, l2, l3 = mp.polylog(s, Z), mp.polylog(s, -Z), mp.polylog(s, Z * Z)
                yield ex.le(ex.ab(ex.sub(ex.add(l1, l2), ex.mul(ex.pow2(1 - s), l3))), ex.mul(ex.pow2(10 - p), ex.mx(ex.ab(l1), ex.ab(l2), ex.pow2(-3 * p)))), \
                    {"key": "identity/polylog-duplication", "s": s, "z": str(z), "p": p, "what": "Li_s(z) + Li_s(-z) != 2^(1-s) Li_s(z^2)"}
            else:
                t = sf.posq(rng, 50); T = sf.q2m(mp, t)
                Zt = mp.siegelz(T); zt = mp.zeta(mp.mpc(0.5, T))
                if hasattr(Zt, "_mpc_"):
                    yield {"j": "false"}, {"key": "siegelz/real", "t": str(t), "p": p, "what": "siegelz of a real argument is not real"}; continue
                yield ex.le(ex.ab(ex.sub(ex.sq(Zt), ex.cnorm2(ex.c_of(zt)))), ex.mul(ex.pow2(12 - p), ex.cnorm2(ex.c_of(zt)))), {"key": "identity/siegelz-modulus", "t": str(t), "p": p,
                                                                                                                                "what": "|Z(t)|^2 != |zeta(1/2+it)|^2"}
        except (ZeroDivisionError, ValueError, TypeError, mpmath.libmp.NoConvergence):
            yield None


def main():
    oblcommon.run(PROP, LEVEL, gen,
                  "seeded rational / complex arguments in a moderate domain away from s = 1; distinct = (function or identity, arguments, precision)",
                  ["[R] checks are necessary conditions only", "regimes where the unchanged library is known not to meet 2^(8-p) (polylog with negative real order and argument, huge imaginary parts) are not sampled"])


replay = oblcommon.replay
