"""C11 -- working precision restored after every call, normal or failing.

M1: PrecCtx (TLC, exhaustive): idioms A (try/finally) and M (PrecisionManager) restore from every
    start precision with a fault injected at every step; idioms B and C are shown unsound (expected
    counterexamples); SetterAlgebra / Consistent invariants.
M3: the documentation corpus of every public callable is executed statement by statement at start
    precisions that are not images of a dps, normally and with an exception injected at enumerated
    crash points (k-th start of internal primitives and of user callbacks); the recorded setter /
    enter / return / raise events are validated by TLC against TracePrecCtx (clauses setter, sync,
    restored, isolation)."""
import json, os, random, sys
from .. import core, tlc, corpus, precrec

PROP = "C11"; LEVEL = "model_checking"
PRECS = [53, 54, 101, 333]


def conv_formulas_ok(mpmath, chk, nmax=36000):
    """bind the spec's conversion formulas to libmp's on the whole modelled range"""
    lm = mpmath.libmp
    def rdiv(num, den):
        return (2 * num + den) // (2 * den)
    for n in range(1, nmax + 1):
        if max(1, rdiv(n * 8651, 28738) - 1) != lm.prec_to_dps(n):
            return "prec_to_dps(%d)" % n
        if n <= 10000 and max(1, rdiv((n + 1) * 28738, 8651)) != lm.dps_to_prec(n):
            return "dps_to_prec(%d)" % n
    return None


def targets(mpmath):
    lm = mpmath.libmp
    mp = mpmath.mp
    t = {}
    for name in ["mpf_div", "mpf_exp", "mpf_log", "mpf_cos_sin", "mpf_gamma", "mpf_sqrt", "mpf_pow",
                 "mpf_atan", "mpc_exp", "mpf_zeta_int", "mpf_bernoulli", "mpf_psi0", "mpf_erf", "mpf_ei"]:
        f = getattr(lm, name, None)
        if f is not None and hasattr(f, "__code__"):
            t[name] = f.__code__
    cls = type(mp)
    for name in ["convert", "hypsum", "hypercomb", "polyval", "quad", "nsum", "diff", "findroot", "taylor", "zetazero_memoized"]:
        f = getattr(cls, name, None)
        if f is not None and hasattr(f, "__code__"):
            t["ctx." + name] = f.__code__
    for name, f in [("matrix.__setitem__", mpmath.matrix.__setitem__), ("matrix.__getitem__", mpmath.matrix.__getitem__)]:
        if hasattr(f, "__code__"):
            t[name] = f.__code__
    t["LU_decomp"] = cls.LU_decomp.__code__
    # every plain function of the numerical kernels (counted on the normal run; a few of those that were
    # entered are then chosen as crash points)
    import types
    for modname in ("gammazeta", "libhyper", "libelefun", "libmpc", "libmpi"):
        mod = getattr(lm, modname)
        for name, f in vars(mod).items():
            if isinstance(f, types.FunctionType) and f.__module__ == mod.__name__ and not name.startswith("__"):
                t.setdefault(name, f.__code__)
    return t


def nested_codes(code):
    out = []
    for c in code.co_consts:
        if hasattr(c, "co_code"):
            out.append(c)
            out += nested_codes(c)
    return out


import ast, inspect

ALT_NUMS = ["1e-5", "700", "-3", "mpf('1e-20')", "(2+3j)", "0", "mpf(7)/3", "60"]


def variants(src, ns, rng, maxn):
    """mutated copies of a documentation statement: boolean keyword parameters of the called function
    flipped on, and one numeric literal argument replaced (small / huge / negative / complex / zero)"""
    try:
        tree = ast.parse(src, mode="eval")
    except SyntaxError:
        return []
    calls = [n for n in ast.walk(tree) if isinstance(n, ast.Call) and isinstance(n.func, ast.Name) and n.func.id in ns]
    if not calls:
        return []
    out = []
    call = calls[0]
    fn = ns.get(call.func.id)
    flips = []
    try:
        sig = inspect.signature(fn)
        for pname, prm in sig.parameters.items():
            if prm.default is False and pname not in [k.arg for k in call.keywords]:
                flips.append(pname)
    except (TypeError, ValueError):
        pass
    if fn is not None and getattr(fn, "__name__", "") in ("gammainc", "f_wrapped") or call.func.id == "gammainc":
        flips.append("regularized")
    numidx = [i for i, a in enumerate(call.args) if isinstance(a, ast.Constant) and isinstance(a.value, (int, float)) and not isinstance(a.value, bool)]
    for _ in range(maxn):
        t2 = ast.parse(src, mode="eval")
        c2 = [n for n in ast.walk(t2) if isinstance(n, ast.Call) and isinstance(n.func, ast.Name) and n.func.id in ns][0]
        did = False
        if flips and rng.random() < 0.7:
            kw = rng.choice(flips)
            if kw not in [k.arg for k in c2.keywords]:
                c2.keywords.append(ast.keyword(arg=kw, value=ast.Constant(True))); did = True
        if numidx and rng.random() < 0.7:
            i = rng.choice(numidx)
            c2.args[i] = ast.parse(rng.choice(ALT_NUMS), mode="eval").body; did = True
        if did:
            try:
                out.append(ast.unparse(ast.fix_missing_locations(t2)))
            except Exception:
                pass
    return list(dict.fromkeys(out))


import signal


class Abandoned(BaseException):
    """raised by the SIGALRM safety net; calls ended this way are not judged"""


def _on_alarm(signum, frame):
    raise Abandoned()


class Sweep:
    def __init__(self, mpmath, seed):
        self.m = mpmath
        self.mp = mpmath.mp
        self.cl = self.mp.clone()
        self.rec = precrec.PrecRecorder({"mp": self.mp, "cl": self.cl, "iv": mpmath.iv})
        self.inj = precrec.Injector(targets(mpmath))
        self.inj.budget = 120000
        self.rng = random.Random(seed)
        self.traces = []
        self.meta = {}       # (trace index, event index) -> replay info
        self.calls = 0
        self.injected_runs = 0
        self.fired = 0
        self.exits = {"return": 0, "raise": 0}
        self._devnull = open(os.devnull, "w")
        self.nvariants = 2
        self.alarm_s = 4
        signal.signal(signal.SIGALRM, _on_alarm)

    def close(self):
        self.inj.close()
        self.rec.restore()

    def _compile(self, src):
        try:
            code = compile(src, "<doc>", "eval"); mode = "eval"
        except SyntaxError:
            code = compile(src, "<doc>", "exec"); mode = "exec"
        for c in nested_codes(code):
            self.inj.add_code("callback", c)
        return code, mode

    def _call(self, code, mode, ns, ctxname, fname, info, arm):
        rec = self.rec
        self.inj.begin(arm)
        rec.log("enter", f=fname, c=ctxname)
        self.calls += 1
        old_stdout = sys.stdout
        sys.stdout = self._devnull
        signal.setitimer(signal.ITIMER_REAL, self.alarm_s, 0.5)      # repeats, in case a bare except swallows it
        try:
            if mode == "eval":
                eval(code, ns)
            else:
                exec(code, ns)
        except Abandoned:
            kind, exc = "abandon", "wall-clock safety net"
        except RecursionError:
            kind, exc = "raise", "RecursionError"
        except BaseException as e:
            if isinstance(e, (KeyboardInterrupt, SystemExit)):
                raise
            if isinstance(e, Abandoned):
                raise
            kind, exc = "raise", type(e).__name__
        else:
            kind, exc = "return", ""
        finally:
            signal.setitimer(signal.ITIMER_REAL, 0)
            sys.stdout = old_stdout
        self.inj.arm = None
        idx = rec.log(kind, f=fname, c=ctxname, exc=exc)
        self.exits[kind] = self.exits.get(kind, 0) + 1
        if kind == "abandon":
            self.rec.ctx[ctxname].prec = info["P"]
        self.meta[(len(self.traces), idx)] = dict(info, exit=kind, exc=exc)
        return dict(self.inj.counts), self.inj.fired

    def run_block(self, ctxname, name, stmts, P, inject, budget_s=None):
        ctx = self.rec.ctx[ctxname]
        rec = self.rec
        rec.events = []
        ctx.prec = P
        rec.events = []
        rec.log("init")
        ns = corpus.namespace(self.m, ctx)
        for i, src in enumerate(stmts):
            try:
                code, mode = self._compile(src)
            except SyntaxError:
                continue
            fname = "%s#%d" % (name, i)
            info = {"block": name, "stmt": i, "src": src, "P": P, "ctx": ctxname, "inject": None}
            ctx.prec = P
            counts, _ = self._call(code, mode, ns, ctxname, fname, info, None)
            if not inject:
                continue
            # argument / keyword variants of the documented call (run normally and with one crash point each)
            for vsrc in variants(src, ns, self.rng, self.nvariants):
                try:
                    vcode, vmode = self._compile(vsrc)
                except SyntaxError:
                    continue
                ctx.prec = P
                vinfo = dict(info, src=vsrc, variant=True)
                vcounts, _ = self._call(vcode, vmode, ns, ctxname, fname + "~v", vinfo, None)
                vl = [l for l, n in vcounts.items() if n > 0]
                if vl:
                    label = self.rng.choice(vl)
                    ctx.prec = P
                    self._call(vcode, vmode, ns, ctxname, fname + "~v", dict(vinfo, inject=[label, 1]), (label, 1))
                    self.injected_runs += 1
            labels = [l for l, n in counts.items() if n > 0]
            self.rng.shuffle(labels)
            for label in labels[:inject]:
                n = counts[label]
                ks = sorted(set([1, n, self.rng.randint(1, n)]))
                for k in ks[:2 if inject < 3 else 3]:
                    ctx.prec = P
                    info2 = dict(info, inject=[label, k])
                    _, fired = self._call(code, mode, ns, ctxname, fname, info2, (label, k))
                    self.injected_runs += 1
                    self.fired += 1 if fired else 0
        ctx.prec = 53
        self.traces.append(rec.events)
        rec.events = []


def judge_traces(traces, tag):
    """concatenate whole traces into shard files and run TracePrecCtx; returns {(trace, idx): clauses}"""
    import tempfile, shutil
    from concurrent.futures import ThreadPoolExecutor
    shards = max(1, min(tlc.NCPU, len(traces)))
    wd = tlc.workdir(tag)
    try:
        files = []
        for s in range(shards):
            pth = os.path.join(wd, "s%d.ndjson" % s)
            with open(pth, "w") as fh:
                for t in range(s, len(traces), shards):
                    for j, ev in enumerate(traces[t]):
                        e = dict(ev); e["id"] = t * 1000000 + j
                        fh.write(json.dumps(e, separators=(",", ":")) + "\n")
            files.append(pth)
        bad = {}
        with ThreadPoolExecutor(max_workers=shards) as ex:
            for res in ex.map(lambda p: tlc.judge_shard(p, "TracePrecCtx", "TracePrecCtx.cfg", 3600, "64m"), files):
                for i, cl in res.items():
                    bad[(i // 1000000, i % 1000000)] = cl
        return bad
    finally:
        shutil.rmtree(wd, ignore_errors=True)


class _Result:
    """merged result of the worker sweeps (same attributes as Sweep for the reporting code)"""
    def __init__(self):
        self.traces = []; self.meta = {}; self.calls = 0; self.injected_runs = 0; self.fired = 0; self.exits = {}


def _worker(args):
    seed, blocks, precs, inject, clone_blocks = args
    from .. import core as _core
    mpmath = _core.use_repo()
    sw = Sweep(mpmath, seed)
    try:
        for name, stmts in blocks:
            for P in precs:
                sw.run_block("mp", name, stmts, P, inject=inject)
        for name, stmts in clone_blocks:
            sw.run_block("cl", name, stmts, 101, inject=0)
    finally:
        sw.close()
    return sw.traces, sw.meta, sw.calls, sw.injected_runs, sw.fired, sw.exits


def run_parallel(chk, blocks, precs, inject):
    """the documentation blocks are independent: sweep them in worker processes (each with its own recorder / injector)"""
    import multiprocessing as mp_
    nproc = max(1, min(tlc.NCPU - 2, len(blocks)))
    chunks = [blocks[i::nproc] for i in range(nproc)]
    clone = blocks[:chk.pick(15, 400)]
    cchunks = [clone[i::nproc] for i in range(nproc)]
    tasks = [(chk.seed * 1000 + i, chunks[i], precs, inject, cchunks[i]) for i in range(nproc)]
    res = _Result()
    ctx = mp_.get_context("fork")
    with ctx.Pool(nproc) as pool:
        for traces, meta, calls, inj, fired, exits in pool.map(_worker, tasks):
            off = len(res.traces)
            res.traces += traces
            for (t, j), m in meta.items():
                res.meta[(t + off, j)] = m
            res.calls += calls; res.injected_runs += inj; res.fired += fired
            for k, v in exits.items():
                res.exits[k] = res.exits.get(k, 0) + v
    return res


def run_models(chk):
    for cfg, expect_violation in [(chk.pick("PrecCtx_sound_quick.cfg", "PrecCtx_sound_thorough.cfg"), False),
                                  ("PrecCtx_iso.cfg", False),
                                  ("PrecCtx_unsoundB.cfg", True), ("PrecCtx_unsoundC.cfg", True)]:
        res = tlc.run_model("PrecCtx", cfg, timeout=3600)
        chk.add_model(res, "PrecCtx/" + cfg)
        if expect_violation:
            if res["violated"] != "Restored":
                chk.machinery("%s: the unsound idiom was not refuted by TLC (vacuity guard)" % cfg)
        elif not res["ok"]:
            if res["violated"]:
                chk.violation("model/PrecCtx/%s" % res["violated"], "design model %s violates %s" % (cfg, res["violated"]), {"cfg": cfg})
            else:
                chk.machinery("%s: TLC failed\n%s" % (cfg, res["output"][-2000:]))


def select_blocks(chk, mpmath, frac):
    cost = corpus.load_cost()
    rng = random.Random(chk.seed * 7919 + 11)
    allb = list(corpus.blocks(mpmath.mp))
    out = []
    for name, stmts in allb:
        keep = [s for k, s in enumerate(stmts) if cost.get("%s#%d" % (name, k), 0) < chk.pick(0.6, 6.0)]
        if keep:
            out.append((name, keep))
    if frac < 1:
        always = {"gammainc", "expint", "hyp2f1", "besselj", "zeta", "polylog", "invertlaplace", "quad", "odefun", "findroot", "lambertw", "nsum", "workprec", "extraprec", "autoprec", "memoize", "lu_solve", "zetazero"}
        sel = [b for b in out if b[0] in always]
        rest = [b for b in out if b[0] not in always]
        rng.shuffle(rest)
        out = sel + rest[:int(len(rest) * frac)]
    return out


def binding_selftest(chk, sw, bad):
    """DESIGN 3.4: accepted traces with (a) one precision write removed, (b) one logged precision bumped must be rejected"""
    import copy
    badtr = {t for (t, j) in bad}
    cands = [t for t, tr in enumerate(sw.traces) if t not in badtr and sum(1 for e in tr if e["ev"] == "set_prec") >= 2][:40]
    mutants = []
    for t in cands:
        tr = sw.traces[t]
        idx = [j for j, e in enumerate(tr) if e["ev"] == "set_prec"]
        chg = [j for k, j in enumerate(idx) if k > 0 and tr[j]["n"] != tr[idx[k - 1]]["n"]]
        if not chg:
            continue
        first = chg[0]                                              # the first write that changes the precision ...
        a = [copy.deepcopy(e) for j, e in enumerate(tr) if not (e["ev"] == "set_prec" and j > first)]   # ... is never undone in the trace
        b = copy.deepcopy(tr); b[idx[0]]["n"] += 1                  # a write logged with another precision than the state shows
        mutants += [a, b]
    if not mutants:
        chk.notes.append("binding self-test: no accepted trace with two precision writes in this run")
        return
    res = judge_traces(mutants, "c11self")
    flagged = {t for (t, j) in res}
    missed = [t for t in range(len(mutants)) if t not in flagged]
    # removing a write that restores an unchanged precision is invisible by construction: require most, and every bumped one
    bumped_missed = [t for t in missed if t % 2 == 1]
    if bumped_missed or len(missed) > len(mutants) // 4:
        chk.machinery("binding self-test: %d of %d corrupted precision traces were accepted (bumped-write copies accepted: %d)" % (len(missed), len(mutants), len(bumped_missed)))
    chk.notes.append("binding self-test: %d corrupted copies of accepted precision traces (write removed / logged precision bumped), %d rejected" % (len(mutants), len(flagged)))


def main():
    chk = core.Check(PROP, LEVEL)
    mpmath = core.use_repo()
    bad_formula = conv_formulas_ok(mpmath, chk)
    if bad_formula:
        chk.violation("setter/formula", "documented conversion formula disagrees with the spec at " + bad_formula, {"at": bad_formula})
    run_models(chk)
    blocks = select_blocks(chk, mpmath, chk.pick(0.12, 1.0))
    precs = chk.pick([54], PRECS)
    sw = run_parallel(chk, blocks, precs, chk.pick(2, 3))
    bad = judge_traces(sw.traces, PROP)
    binding_selftest(chk, sw, bad)
    nev = sum(len(t) for t in sw.traces)
    chk.cov["evaluations"] = sw.calls
    chk.cov["distinct_nontrivial"] = len({(m["block"], m["stmt"], m["P"], tuple(m["inject"] or ())) for m in sw.meta.values()})
    chk.cov["rule"] = ("documentation statements of every public callable executed at non-dps-image precisions, normally and "
                       "with an exception injected at the k-th start of an internal primitive or user callback; distinct = "
                       "(statement, precision, crash point); every call is non-trivial (bracketed enter/exit judged by TLC)")
    chk.cov["events"] = nev
    chk.cov["injected_runs"] = sw.injected_runs
    chk.cov["injections_fired"] = sw.fired
    chk.cov["exits"] = sw.exits
    chk.add_traces(len(sw.traces))
    for (t, j), clauses in sorted(bad.items()):
        m = sw.meta.get((t, j))
        if m is None:
            ev = sw.traces[t][j]
            m = {"block": "?", "event": ev}
        for cl in clauses:
            if cl in ("restored", "setter", "sync"):
                how = "raise" if m.get("exit") == "raise" else "return"
                key = "%s/%s/%s" % (cl, m.get("block"), how)
                chk.violation(key, "precision not restored: %s" % json.dumps(m)[:300], m)
    some = list(sw.meta.values())
    for m in some[:3] + [x for x in some if x["inject"]][:3]:
        chk.sample(m)
    chk.assumptions += ["all precision writes go through the prec/dps property setters (the sync clause detects others at call boundaries)",
                        "conversion formulas validated against libmp on 1..36000 at start-up",
                        "sys.monitoring PY_START injection raises at function start of the chosen primitive"]
    chk.finish()


def replay(path):
    chk = core.Check(PROP, LEVEL)
    mpmath = core.use_repo()
    m = json.load(open(path))["replay"]
    sw = Sweep(mpmath, 0)
    try:
        allb = dict(corpus.blocks(mpmath.mp))
        stmts = allb[m["block"]]
        # run the block's statements up to the failing one normally, then the failing one as recorded
        ctx = sw.rec.ctx[m["ctx"]]
        sw.rec.events = []
        ctx.prec = m["P"]; sw.rec.events = []; sw.rec.log("init")
        ns = corpus.namespace(mpmath, ctx)
        idx = [i for i, s in enumerate(stmts) if s == m["src"]]
        upto = idx[0] if idx else 0
        for s in stmts[:upto]:
            try:
                corpus.run_stmt(s, ns)
            except Exception:
                pass
        ctx.prec = m["P"]
        sw.rec.events = []; sw.rec.log("init")
        code, mode = sw._compile(m["src"])
        sw._call(code, mode, ns, m["ctx"], "replay", m, tuple(m["inject"]) if m["inject"] else None)
        sw.traces.append(sw.rec.events)
    finally:
        sw.close()
    bad = judge_traces(sw.traces, PROP)
    print("events:", sw.traces[0])
    print("verdict:", bad)
    if bad:
        print("VIOLATION property=%s replay=%s" % (PROP, path))
        raise SystemExit(1)
    raise SystemExit(0)
