"""C25 -- integer-valued and number-theoretic functions are exact.

M3: factorial, fac2, binomial, rf, ff, fib, bernoulli, eulernum, stirling1/2, bell, bernfrac,
    primepi, isprime, moebius, list_primes with arguments crossing the cache boundaries; the exact
    integer / rational is computed by TLC from the defining recurrences in spec/Oblig.tla (Fact,
    Fact2, Binom, Fib, BernSeq, EulerSeq, Stir1Row, Stir2Row, Bell, PrimePi) and the recorded result
    must equal it when it fits in the working precision and be within one ulp otherwise
    (ExactOrUlp); exact=True variants and bernfrac must equal it as integers."""
import json, random
from .. import core, tlc, enc, ex

PROP = "C25"; LEVEL = "exploration"


def main():
    chk = core.Check(PROP, LEVEL)
    mpmath = core.use_repo()
    mp = mpmath.mp
    rng = random.Random(chk.seed * 2741 + 25)
    events, meta = [], {}
    def emit(name, args, out, expr, p, kind="exact_or_ulp"):
        eid = len(events)
        if kind == "exact_or_ulp" and isinstance(out, int):
            kind = "int_eq"
        if kind == "exact_or_ulp":
            o = enc.f(out._mpf_)
        else:
            o = enc.z(int(out))
        events.append(enc.event(eid, kind, [], p, "n", o, pb=p, x={"e": expr}))
        meta[eid] = {"f": name, "args": args, "p": p}
    n = chk.pick(900, 30000)
    for i in range(n):
        p = rng.choice([10, 24, 53, 53, 100, 200, rng.randint(10, 400)])
        mp.prec = p
        try:
            c = rng.randrange(16)
            if c == 0:
                k = rng.choice([0, 1, 2, rng.randint(0, 30), rng.randint(20, 300), 170, 171])
                emit("factorial", [k], mp.factorial(k), ex.seqn("fact", k), p)
            elif c == 1:
                k = rng.choice([-1, 0, 1, rng.randint(0, 40), rng.randint(20, 300)])
                emit("fac2", [k], mp.fac2(k), ex.seqn("fact2", k), p)
            elif c == 2:
                a = rng.choice([rng.randint(0, 40), rng.randint(0, 400)]); b = rng.randint(0, a + 2)
                emit("binomial", [a, b], mp.binomial(a, b), ex.seqnk("binom", a, b), p)
            elif c == 3:
                a = rng.randint(-5, 60)
                if a < 0:
                    # F(-n) = (-1)^(n+1) F(n)
                    e = ex.mul(ex.seqn("fib", -a), (-1) ** (-a + 1))
                else:
                    e = ex.seqn("fib", a)
                emit("fib", [a], mp.fib(a), e, p)
                if rng.random() < 0.5:
                    a = rng.randint(60, 1200)
                    emit("fib", [a], mp.fib(a), ex.seqn("fib", a), p)
            elif c == 4:
                k = rng.choice([0, 1, 2, 3, 4, rng.randint(0, 40), rng.randint(2, 24) * 2])
                emit("bernoulli", [k], mp.bernoulli(k), ex.seqn("bern", k), p)
            elif c == 5:
                k = rng.randint(0, 36)
                emit("eulernum", [k], mp.eulernum(k), ex.seqn("euler", k), p)
                emit("eulernum-exact", [k], mp.eulernum(k, exact=True), ex.seqn("euler", k), p, kind="int_eq")
            elif c == 6:
                a = rng.randint(0, 30); b = rng.randint(0, a + 1)
                emit("stirling1", [a, b], mp.stirling1(a, b), ex.seqnk("stir1", a, b), p)
                emit("stirling1-exact", [a, b], mp.stirling1(a, b, exact=True), ex.seqnk("stir1", a, b), p, kind="int_eq")
            elif c == 7:
                a = rng.randint(0, 30); b = rng.randint(0, a + 1)
                emit("stirling2", [a, b], mp.stirling2(a, b), ex.seqnk("stir2", a, b), p)
                emit("stirling2-exact", [a, b], mp.stirling2(a, b, exact=True), ex.seqnk("stir2", a, b), p, kind="int_eq")
            elif c == 8:
                k = rng.randint(0, 40)
                emit("bell", [k], mp.bell(k), ex.seqn("bell", k), p)
            elif c == 9:
                k = rng.randint(0, 40)
                pq = mp.bernfrac(k)
                eid = len(events)
                events.append(enc.event(eid, "oblig", [], p, "n", enc.sym("none"), pb=0,
                                        x={"defs": [], "j": ex.allj(ex.eq(ex.div(int(pq[0]), int(pq[1])), ex.seqn("bern", k)), ex.lt(0, int(pq[1])))}))
                meta[eid] = {"f": "bernfrac", "args": [k], "p": p, "got": [int(pq[0]), int(pq[1])]}
                # reducedness: gcd(p, q) = 1 is re-derived from von Staudt-Clausen: q = prod of primes l with (l-1) | k
                if k >= 2 and k % 2 == 0:
                    vs = 1
                    for l in range(2, k + 2):
                        if all(l % d for d in range(2, int(l ** 0.5) + 1)) and k % (l - 1) == 0:
                            vs *= l
                    if int(pq[1]) != vs:
                        chk.violation("bernfrac/denominator", "bernfrac(%d) denominator %d is not the von Staudt-Clausen product %d" % (k, pq[1], vs), {"k": k})
            elif c == 10:
                k = rng.randint(0, 3000)
                emit("primepi", [k], mp.primepi(k), ex.seqn("primepi", k), p)
            elif c == 11:
                # rf / ff at integer arguments: rising and falling factorials as integer products
                x = rng.randint(-12, 30); k = rng.randint(0, 15)
                emit("rf", [x, k], mp.rf(x, k), ex.prodk(0, k - 1, ex.add(x, ex.K)), p)
                emit("ff", [x, k], mp.ff(x, k), ex.prodk(0, k - 1, ex.sub(x, ex.K)), p)
            elif c == 12:
                # isprime / moebius / list_primes against trial division in the spec (primepi differences)
                k = rng.randint(0, 4000)
                got = mp.isprime(k)
                want = ex.sub(ex.seqn("primepi", k), ex.seqn("primepi", max(k - 1, 0)))
                eid = len(events)
                events.append(enc.event(eid, "oblig", [], p, "n", enc.sym("none"), pb=0, x={"defs": [], "j": ex.eq(1 if got else 0, want)}))
                meta[eid] = {"f": "isprime", "args": [k], "p": p, "got": bool(got)}
            elif c == 13:
                k = rng.randint(2, 2500)
                ps = mp.list_primes(k)
                eid = len(events)
                events.append(enc.event(eid, "oblig", [], p, "n", enc.sym("none"), pb=0, x={"defs": [], "j": ex.eq(len(ps), ex.seqn("primepi", k))}))
                meta[eid] = {"f": "list_primes", "args": [k], "p": p, "got": len(ps)}
                if ps != sorted(set(ps)) or any(not mp.isprime(q) for q in ps[-5:]) or (ps and ps[-1] > k):
                    chk.violation("list_primes/structure", "list_primes(%d) is not a sorted duplicate-free list of primes <= n" % k, {"k": k})
            elif c == 14:
                # bernpoly / eulerpoly at rational points: B_n(x) = sum_k C(n,k) B_k x^(n-k)
                k = rng.randint(0, 14); x = ex.Qf(__import__("fractions").Fraction(rng.randint(-20, 20), rng.choice([1, 2, 4, 8])))
                xv = mp.mpf(rng.randint(-20, 20)) / 1
                num = rng.randint(-20, 20); den = rng.choice([1, 2, 4, 8])
                xq = __import__("fractions").Fraction(num, den)
                got = mp.bernpoly(k, mp.mpf(num) / den)
                e = ex.add(*[ex.mul(ex.seqnk("binom", k, j), ex.seqn("bern", j), ex.powi(ex.Qf(xq), k - j)) for j in range(k + 1)]) if k else ex.Z(1)
                # B_1 convention: bernpoly uses B_1 = -1/2, as BernSeq does
                eid = len(events)
                jj = ex.rel0_close(got, e, 8, p)
                events.append(enc.event(eid, "oblig", [], p, "n", enc.sym("none"), pb=0, x={"defs": ex.take_defs(), "j": jj}))
                meta[eid] = {"f": "bernpoly", "args": [k, str(xq)], "p": p}
            else:
                k = rng.choice([1, 2, 3, 4, 5, 6, 7, 8, 9, 10, 12, 15, 30])
                num = rng.randint(-6, 6)
                got = mp.cyclotomic(k, num)
                # Phi_k(x) = prod_{d | k} (x^d - 1)^mu(k/d)
                def mu(m):
                    r = 1; q = 2
                    while q * q <= m:
                        if m % q == 0:
                            m //= q
                            if m % q == 0: return 0
                            r = -r
                        q += 1
                    return -r if m > 1 else r
                if abs(num) <= 1:
                    continue
                terms = [ex.powi(ex.sub(ex.powi(num, d), 1), mu(k // d)) for d in range(1, k + 1) if k % d == 0 and mu(k // d)]
                emit("cyclotomic", [k, num], mp.mpf(got), ex.mul(*terms), p)
        except enc.EncodeRange:
            pass
        finally:
            mp.prec = 53
    # isprime on semiprimes (k+1)(mk+1) -- the classic families of strong pseudoprimes -- up to 3.4e14: the factorisation is
    # an untrusted certificate verified by the spec (exact product, both factors > 1); isprime must answer False.
    def small_prime(q):
        return q > 1 and all(q % d_ for d_ in range(2, int(q ** 0.5) + 1))
    cands = []
    for m_ in (2, 3, 4, 5, 6, 7, 8, 10, 12):
        for k in range(20, 6000):
            a_, b_ = k + 1, m_ * k + 1
            if a_ * b_ < 34 * 10 ** 13 and small_prime(a_) and small_prime(b_):
                cands.append((a_, b_))
    dense = [c_ for c_ in cands if c_[0] * c_[1] < 3 * 10 ** 7]
    rng.shuffle(cands)
    for a_, b_ in dense + cands[:chk.pick(150, 4000)]:
        n_ = a_ * b_
        got = mp.isprime(n_)
        eid = len(events)
        events.append(enc.event(eid, "oblig", [], 53, "n", enc.sym("none"), pb=0,
                                x={"defs": [], "j": ex.allj(ex.eq(ex.mul(a_, b_), n_), ex.lt(1, a_), ex.lt(1, b_), ex.eq(1 if got else 0, 0))}))
        meta[eid] = {"f": "isprime-semiprime", "args": [n_, a_, b_], "p": 53, "got": bool(got)}
    # and primes below 10^8 must be reported prime (trial division in the spec)
    for i in range(chk.pick(40, 600)):
        q = rng.randint(10 ** 5, 10 ** 8) | 1
        while not small_prime(q):
            q += 2
        got = mp.isprime(q)
        eid = len(events)
        events.append(enc.event(eid, "oblig", [], 53, "n", enc.sym("none"), pb=0, x={"defs": [], "j": ex.allj(ex.eq(ex.seqn("isprime", q), 1), ex.eq(1 if got else 0, 1))}))
        meta[eid] = {"f": "isprime-prime", "args": [q], "p": 53, "got": bool(got)}
    bad = tlc.judge(events, tag=PROP)
    for ev in events:
        chk.count(); chk.distinct(json.dumps(meta[ev["id"]]), True)
    chk.add_traces(len(events))
    for ev in events[:4]:
        chk.sample(meta[ev["id"]])
    for i, cl in sorted(bad.items()):
        if "post" in cl:
            m = meta[i]
            chk.violation("%s/value" % m["f"], "%s%s at prec %d is not the exact value (or within 1 ulp)" % (m["f"], tuple(m["args"]), m["p"]), m)
    chk.cov["rule"] = "seeded integer arguments crossing cache boundaries; exact values from the recurrences in spec/Oblig.tla; distinct = (function, args, precision)"
    chk.assumptions += ["von Staudt-Clausen for bernfrac denominators", "isprime exactness judged up to 4000 here by trial division in the spec"]
    chk.finish()


def replay(path):
    print(open(path).read()[:1500]); raise SystemExit(0)
