"""C40 -- pickling and copying preserve values exactly.

M1: Pickle (hex round trip over a whole mantissa range and the special encodings);
    MatrixLU!CopyIndependent is model-checked by C33's MatrixLU_mc configuration and re-run here.
M3: every pickle protocol, copy.copy and copy.deepcopy of mpf / mpc (specials, 1..10^4-bit mantissas,
    huge exponents) and of matrices with mixed entries: TLC judges identical raw tuples (op same_repr)
    plus same type / equality flags; mutation of a copy must leave the original's entries and LU slot
    untouched and vice versa."""
import copy, json, pickle, random
from .. import core, tlc, enc, gen

PROP = "C40"; LEVEL = "model_checking"


def mat_enc(M):
    vals = []
    for x in M:
        if hasattr(x, "_mpc_"):
            vals += [enc.f(x._mpc_[0]), enc.f(x._mpc_[1])]
        else:
            vals += [enc.f(x._mpf_), enc.f(gen.FZERO)]
    return enc.t(vals)


def main():
    chk = core.Check(PROP, LEVEL)
    mpmath = core.use_repo()
    mp = mpmath.mp
    for module, cfg in [("Pickle", "Pickle.cfg"), ("MatrixLU", "MatrixLU_mc.cfg")]:
        res = tlc.run_model(module, cfg)
        chk.add_model(res, module + "/" + cfg)
        if not res["ok"]:
            if res["violated"]:
                chk.violation("model/%s/%s" % (module, res["violated"]), "design model violates " + res["violated"], {"cfg": cfg})
            else:
                chk.machinery(cfg + ": TLC failed\n" + res["output"][-1500:])
    g = gen.G(chk.seed * 1000003 + 40)
    r = g.r
    events, meta = [], {}
    n = chk.pick(1500, 40000)
    for i in range(n):
        p = g.prec(big=True)
        kind = r.choice(["mpf", "mpf", "mpc", "matrix"])
        how = r.choice(["pickle%d" % k for k in range(0, pickle.HIGHEST_PROTOCOL + 1)] + ["copy", "deepcopy"])
        if kind == "mpf":
            t = g.mpf(p, special=0.15)
            if r.random() < 0.1:
                t = gen.mk(g.mant(r.randint(2000, 10000), p), r.randint(-10 ** 6, 10 ** 6))
            x = mp.make_mpf(t)
        elif kind == "mpc":
            x = mp.make_mpc((g.mpf(p, special=0.1), g.mpf(p, special=0.1)))
        else:
            k = r.randint(1, 4)
            x = mp.matrix(k, r.randint(1, 4))
            for a in range(x.rows):
                for b in range(x.cols):
                    c = r.random()
                    x[a, b] = mp.make_mpf(g.mpf(p, special=0.0)) if c < 0.6 else (mp.make_mpc((g.mpf(p, special=0.0), g.mpf(p, special=0.0))) if c < 0.8 else r.randint(-5, 5))
        if kind == "matrix":
            how = r.choice(["copy", "method"])        # the property covers copying of matrices (pickling them is not supported by the class)
        try:
            if how == "method":
                y = x.copy()
            elif how.startswith("pickle"):
                y = pickle.loads(pickle.dumps(x, int(how[6:])))
            elif how == "copy":
                y = copy.copy(x)
            else:
                y = copy.deepcopy(x)
        except Exception as e:
            chk.violation("%s/%s/raises" % (kind, how), "%s of a %s raised %r" % (how, kind, e), {"kind": kind, "how": how})
            continue
        same_type = type(x) is type(y)
        try:
            if kind == "matrix":
                equal = bool(x == y)
                a1, a2 = mat_enc(x), mat_enc(y)
            else:
                nan = (kind == "mpf" and x._mpf_ == gen.FNAN) or (kind == "mpc" and gen.FNAN in x._mpc_)
                equal = bool(x == y) or nan
                a1 = enc.f(x._mpf_) if kind == "mpf" else enc.c(x._mpc_)
                a2 = enc.f(y._mpf_) if kind == "mpf" else enc.c(y._mpc_)
            eid = len(events)
            events.append(enc.event(eid, "same_repr", [a1, a2], 0, "n", enc.sym("none"), pb=0, x={"same_type": same_type, "equal": equal}))
            meta[eid] = {"kind": kind, "how": how, "repr": repr(x)[:120]}
        except enc.EncodeRange:
            continue
        if kind == "matrix":
            # independence: mutate the copy, then the original
            before = mat_enc(x); lu_before = x._LU
            y[0, 0] = y[0, 0] + 1
            if y.rows > 1:
                y.rows = y.rows - 1
            if mat_enc(x) != before or x._LU is not lu_before:
                chk.violation("matrix/%s/not-independent" % how, "mutating a %s of a matrix changed the original" % how, {"how": how, "repr": repr(x)[:200]})
            z = copy.copy(x); zb = mat_enc(z)
            x[0, 0] = x[0, 0] - 3
            if mat_enc(z) != zb:
                chk.violation("matrix/copy/not-independent", "mutating the original changed its copy", {"how": how, "repr": repr(x)[:200]})
            chk.count()
    bad = tlc.judge(events, tag=PROP)
    for ev in events:
        chk.count(); chk.distinct(json.dumps(meta[ev["id"]]) + json.dumps(ev["a"][0])[:200], True)
    chk.add_traces(len(events))
    for ev in events[:3]:
        chk.sample(meta[ev["id"]])
    for i, cl in sorted(bad.items()):
        if "post" in cl or "canon" in cl:
            m = meta[i]
            chk.violation("%s/%s/representation" % (m["kind"], m["how"]), "%s via %s does not preserve the representation: %s" % (m["kind"], m["how"], m["repr"]), m)
    chk.cov["rule"] = "seeded mpf/mpc/matrix values (specials, long mantissas, huge exponents) through every pickle protocol, copy and deepcopy; distinct = (kind, method, value)"
    chk.finish()


def replay(path):
    print(open(path).read()[:2000]); raise SystemExit(0)
