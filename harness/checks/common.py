"""Shared body of the arithmetic trace checks (M1 model runs + M3 judged events)."""
import json
from .. import core, tlc, gen, cases, arith


def key_of(c, clause):
    sig = ""
    if c["op"] in ("add", "sub") and all(a[0] == "f" for a in c["args"]):
        x, y = c["args"]
        if x[2] and y[2]:
            big = x if x[3] + x[4] >= y[3] + y[4] else y
            if big[4] > c["p"] and abs(x[3] - y[3]) > 100:
                sig = "/bc>prec&gap>100"
    return "%s/%s/%s%s" % (c["op"], c["lvl"], clause, sig)


def run_models(chk, models):
    """models: list of (module, quick_cfg, thorough_cfg). A violated invariant of a *model* whose
    algorithms were transcribed from the code is reported through chk.violation by the caller."""
    results = []
    for module, qc, tc in models:
        res = tlc.run_model(module, chk.pick(qc, tc), timeout=chk.pick(900, 7200))
        if not res["ok"] and res["violated"] is None:
            chk.machinery("%s: TLC failed\n%s" % (module, res["output"][-3000:]))
        chk.add_model(res, module)
        results.append((module, res))
    return results


def judge_cases(chk, cs, runner, clause, what):
    events, byid, dropped = arith.record(cs, runner)
    bad = tlc.judge(events, tag=chk.prop, timeout=chk.pick(1200, 14400))
    for ev in events:
        c = byid[ev["id"]]
        chk.count()
        chk.distinct((c["op"], c["lvl"], c["args"], c["p"], c["r"]), arith.nontrivial(ev))
    chk.add_traces(len(events))
    for ev in events[:200:40]:
        chk.sample({"case": arith.abbreviate(byid[ev["id"]]), "outcome": arith.abbreviate(ev["o"])})
    if dropped:
        chk.notes.append("%d cases dropped by the encoder (exponent or length out of range)" % dropped)
    nbad = 0
    for i, clauses in sorted(bad.items()):
        if clause in clauses:
            c = byid[i]
            nbad += 1
            chk.violation(key_of(c, clause), "%s: %s via %s at prec %d mode %s" % (what, c["op"], c["lvl"], c["p"], c["r"]), c)
    return events, bad, byid


def replay(prop, level, path, clause):
    chk = core.Check(prop, level)
    mp = core.use_repo()
    runner = cases.Runner(mp)
    rec = json.load(open(path))
    c = rec["replay"]
    if "machine" in c:
        from .. import machine
        if not machine.replay_one(mp, c):
            print("VIOLATION property=%s replay=%s" % (prop, path))
            raise SystemExit(1)
        raise SystemExit(0)
    events, byid, dropped = arith.record([c], runner)
    bad = tlc.judge(events, tag=prop)
    print("case:", arith.abbreviate(c))
    print("outcome:", arith.abbreviate(events[0]["o"]) if events else None)
    print("verdict:", bad)
    if any(clause in v for v in bad.values()):
        print("VIOLATION property=%s replay=%s" % (prop, path))
        raise SystemExit(1)
    raise SystemExit(0)
