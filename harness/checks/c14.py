"""C14 -- real interval operations contain every possible exact result.

M3: +, -, *, /, ** (integer exponents), abs, negation, sqrt on libmp.mpi_* and iv operators with point /
    narrow / wide / straddling / half-infinite intervals and endpoints longer than the interval
    precision; conversions from int, float, mpf, Fraction and string forms.  The event carries sample
    member points of each input (endpoints, zero, interior dyadics, huge points for infinite ends) and
    TLC checks with MpiPost that the exact result of every point combination lies in the returned
    interval (exact dyadic / rational comparisons on limbs)."""
import json, random, fractions
from .. import core, tlc, gen, enc

PROP = "C14"; LEVEL = "exploration"


def interval(g, p):
    """(a, b) raw endpoints a <= b, of various shapes"""
    r = g.r
    c = r.random()
    def fin():
        t = g.mpf(p, special=0.0)
        if abs(t[2]) > 3000:
            t = (t[0], t[1], r.randint(-60, 60), t[3])
        return t
    x = fin()
    if c < 0.15:
        return (x, x)
    if c < 0.45 and x[1]:
        # narrow: a few ulps wide at a random position of the mantissa
        xn, xe = gen.value(x)
        d = r.randint(1, 8)
        y = gen.mk(xn * 2 ** 3 + d, xe - 3)
        lo, hi = sorted([x, y], key=lambda t: fractions.Fraction(gen.value(t)[0]) * fractions.Fraction(2) ** gen.value(t)[1]) if max(abs(xe), 3) < 5000 else (x, y)
        return (lo, hi)
    y = fin()
    def key(t):
        if t == gen.FZERO:
            return fractions.Fraction(0)
        n, e = gen.value(t)
        return fractions.Fraction(n) * fractions.Fraction(2) ** e
    lo, hi = sorted([x, y], key=key)
    if c > 0.9:
        lo = gen.FNINF
    elif c > 0.8:
        hi = gen.FINF
    return (lo, hi)


def points(g, iv_, p, k=3):
    """finite sample member points (raw tuples) of the interval"""
    r = g.r
    a, b = iv_
    pts = []
    def val(t):
        if t == gen.FZERO:
            return (0, 0)
        return gen.value(t)
    if a[1] or a == gen.FZERO:
        pts.append(a)
    if b[1] or b == gen.FZERO:
        pts.append(b)
    lo = None if a == gen.FNINF else val(a)
    hi = None if b == gen.FINF else val(b)
    def frac(v):
        return fractions.Fraction(v[0]) * fractions.Fraction(2) ** v[1]
    flo = frac(lo) if lo is not None else None
    fhi = frac(hi) if hi is not None else None
    if (flo is None or flo <= 0) and (fhi is None or fhi >= 0):
        pts.append(gen.FZERO)
    for _ in range(k):
        if flo is not None and fhi is not None:
            if flo == fhi:
                break
            t = fractions.Fraction(r.randint(1, 2 ** 12 - 1), 2 ** 12)
            v = flo + (fhi - flo) * t
        elif flo is None and fhi is None:
            v = fractions.Fraction(r.randint(-2 ** 20, 2 ** 20)) * fractions.Fraction(2) ** r.randint(-40, 400)
        elif flo is None:
            v = fhi - fractions.Fraction(r.randint(1, 2 ** 20)) * fractions.Fraction(2) ** r.randint(-40, 400)
        else:
            v = flo + fractions.Fraction(r.randint(1, 2 ** 20)) * fractions.Fraction(2) ** r.randint(-40, 400)
        # v is a dyadic rational by construction
        den = v.denominator
        e = -(den.bit_length() - 1)
        pts.append(gen.mk(v.numerator, e))
    return pts


def main():
    chk = core.Check(PROP, LEVEL)
    mpmath = core.use_repo()
    lm, iv = mpmath.libmp, mpmath.iv
    g = gen.G(chk.seed * 1000003 + 14)
    r = g.r
    events, meta = [], {}
    n = chk.pick(1400, 16000)
    for i in range(n):
        p = r.choice([r.randint(1, 8), 10, 24, 53, 53, 100, r.randint(9, 200)])
        f = r.choice(["add", "sub", "mul", "div", "neg", "abs", "pow", "sqrt", "mul", "div"])
        s, t = interval(g, p), interval(g, p)
        nn = 0
        mayraise = False
        lvl = r.choice(["libmp", "oper"])
        try:
            if f == "sqrt":
                if s[0][0] == 1 or s[0] == gen.FNINF:
                    s = (gen.FZERO if r.random() < 0.3 else (0,) + s[1][1:] if s[1][1] else gen.FZERO, (0,) + s[1][1:] if s[1][1] else gen.FZERO)
                    if s[0] != gen.FZERO and s[1] != gen.FZERO:
                        s = tuple(sorted(s, key=lambda q: q[2] + q[3]))
                        if s[0][2] + s[0][3] == s[1][2] + s[1][3]:
                            s = (s[0], s[0])
                    elif s[1] == gen.FZERO:
                        s = (gen.FZERO, gen.FZERO)
            if lvl == "libmp":
                fn = {"add": lm.mpi_add, "sub": lm.mpi_sub, "mul": lm.mpi_mul, "div": lm.mpi_div, "neg": lm.mpi_neg,
                      "abs": lm.mpi_abs, "sqrt": lm.mpi_sqrt}.get(f)
                if f in ("add", "sub", "mul", "div"):
                    out = fn(s, t, p)
                elif f == "pow":
                    nn = r.choice([0, 1, 2, 3, 4, 5, 6, -1, -2, -3, r.randint(2, 12)])
                    out = lm.mpi_pow_int(s, nn, p)
                else:
                    out = fn(s, p)
            else:
                iv.prec = p
                S, T = iv.make_mpf(s), iv.make_mpf(t)
                if f == "add": out = (S + T)._mpi_
                elif f == "sub": out = (S - T)._mpi_
                elif f == "mul": out = (S * T)._mpi_
                elif f == "div": out = (S / T)._mpi_
                elif f == "neg": out = (-S)._mpi_
                elif f == "abs": out = abs(S)._mpi_
                elif f == "sqrt": out = iv.sqrt(S)._mpi_
                else:
                    nn = r.choice([0, 1, 2, 3, 4, 5, 6, -1, -2, -3, r.randint(2, 12)])
                    out = (S ** nn)
                    if not hasattr(out, "_mpi_"):
                        continue                     # a complex-interval result (negative base): C15's business
                    out = out._mpi_
        except (ZeroDivisionError, ValueError, lm.ComplexResult) as e:
            out = e
            mayraise = f in ("div", "pow", "sqrt")      # division by an interval containing zero / negative sqrt may raise
        finally:
            iv.prec = 53
        xs = points(g, s, p)
        ys = points(g, t, p) if f in ("add", "sub", "mul", "div") else []
        eid = len(events)
        try:
            o = enc.exc(out) if isinstance(out, BaseException) else enc.v(out)
            x = {"f": f, "xs": [enc.f(q) for q in xs], "ys": [enc.f(q) for q in ys], "n": nn, "mayraise": mayraise}
            events.append(enc.event(eid, "iv", [enc.v(s), enc.v(t)], p, "n", o, pb=0, x=x))
            meta[eid] = {"f": f, "lvl": lvl, "p": p, "s": [list(map(int, q)) for q in s], "t": [list(map(int, q)) for q in t], "n": nn}
        except enc.EncodeRange:
            continue
    events2, meta2 = conversion_events(chk, mpmath, g, len(events))
    events += events2; meta.update(meta2)
    events3, meta3 = function_events(chk, mpmath, g, len(events))
    events += events3; meta.update(meta3)
    # pinned representatives of the known findings (re-executed on every run)
    pinned = {}
    for k in chk.known:
        if k.get("status") == "known" and "rep" in k:
            rep = k["rep"]
            made = fun_event(mpmath, g, len(events), rep["f"], rep["lvl"], rep["p"], tuple(tuple(q) for q in rep["s"]),
                             tuple(tuple(q) for q in rep["t"]) if rep.get("t") else None, False)
            if made is None:
                chk.machinery("pinned representative of %s could not be executed" % k["key"])
            events.append(made[0]); meta[made[0]["id"]] = dict(made[1], pinned=True); pinned[made[0]["id"]] = k
    bad = tlc.judge(events, tag=PROP)
    for eid, k in pinned.items():
        chk.known_line(k, "post" in bad.get(eid, []))
    und = sum(1 for cl in bad.values() if "undecided" in cl)
    chk.notes.append("%d function events (spec enclosures: %s; relational: %s); %d events had a member point the enclosure could not place (undecided, not judged)"
                     % (len(events3), ", ".join(ENCL_FUNCS), ", ".join(REL_FUNCS), und))
    for ev in events:
        chk.count(); chk.distinct(json.dumps(meta[ev["id"]], sort_keys=True), ev["o"]["k"] != "x")
    chk.add_traces(len(events))
    for ev in events[:3]:
        chk.sample(core_abbrev(meta[ev["id"]]))
    byid = {ev["id"]: ev for ev in events}
    for i, clauses in sorted(bad.items()):
        if "post" in clauses:
            m = meta[i]
            if m.get("pinned"):
                continue
            if m.get("fun"):
                bucket = "raises" if m["out"] is None else outside_bucket(mpmath, m["f"], m["p"], [tuple(q) for q in m["out"]], [tuple(q) for q in m["pts"]], [tuple(q) for q in m["pts2"]])
                mm = {k: v for k, v in m.items() if k not in ("pts", "pts2", "fun", "pinned")}
                chk.violation("%s/%s/contain/%s" % (m["f"], m["lvl"], bucket),
                              "interval function result does not contain the value at a member point (outside by %s): %s" % (bucket, json.dumps(core_abbrev(mm))[:300]), byid[i])
                continue
            chk.violation("%s/%s/contain" % (m["f"], m["lvl"]), "interval result does not contain an exact point result: %s" % json.dumps(core_abbrev(m))[:300], byid[i])
    chk.cov["rule"] = ("seeded intervals (point, narrow, wide, straddling, half-infinite, endpoints longer than the precision) with sample member "
                       "points incl. all finite endpoints; distinct = (op, level, intervals, precision)")
    chk.assumptions += ["extreme values of +,-,*,/,integer powers and sqrt over a box are attained at endpoint combinations (included in the samples); "
                        "for infinite endpoints huge finite members are sampled"]
    chk.finish()


def core_abbrev(m):
    from .. import arith
    return arith.abbreviate(m)


def moderate_interval(g, p, maxtop, positive=False, mintop=-40):
    """finite interval whose endpoints have magnitude below 2^maxtop (exponents clamped), optionally inside (0, inf)"""
    r = g.r
    def clamp(t):
        if not t[1]:
            return t
        top = max(mintop, min(maxtop, t[2] + t[3]))
        return ((0 if positive else t[0]), t[1], top - t[3], t[3])
    def key(t):
        if t == gen.FZERO:
            return fractions.Fraction(0)
        n, e = gen.value(t)
        return fractions.Fraction(n) * fractions.Fraction(2) ** e
    while True:
        v = interval(g, p)
        if v[0] in (gen.FNINF,) or v[1] in (gen.FINF,):
            continue
        a, b = clamp(v[0]), clamp(v[1])
        if positive and (a == gen.FZERO or b == gen.FZERO):
            continue
        return tuple(sorted([a, b], key=key))


def ref_interval(mp, y, q):
    """the library's point value y (computed at q bits) widened by 2^(12-q) relative: a relational reference enclosure"""
    if y == 0:
        return None
    d = abs(y) * mp.mpf(2) ** (12 - q)
    saved = mp.prec
    mp.prec = q + 20
    try:
        return ((y - d)._mpf_, (y + d)._mpf_)
    finally:
        mp.prec = saved


def outside_bucket(mpmath, f, p, out, pts, pts2=None):
    """classification of a containment violation (used for reporting and known-finding keys only): how far outside
    the returned interval does the library's own high-precision point value lie, in ulps (at precision p) of
    the violated endpoint?  Returns a bucket name."""
    mp = mpmath.mp
    saved = mp.prec
    mp.prec = 3 * p + 300
    worst = mp.mpf(0)
    try:
        a, b = mp.make_mpf(out[0]), mp.make_mpf(out[1])
        if a > b:
            return "lower>upper"
        for i, q in enumerate(pts):
            X = mp.make_mpf(q)
            try:
                if f == "atan2":
                    y = mp.atan2(X, mp.make_mpf(pts2[i]))
                elif f == "rpow":
                    y = X ** mp.make_mpf(pts2[i])
                elif f == "log":
                    y = mp.log(X)
                else:
                    y = getattr(mp, f)(X)
            except (ZeroDivisionError, ValueError):
                continue
            if hasattr(y, "_mpc_") or not mp.isfinite(y):
                continue
            for end, d in ((a, a - y), (b, y - b)):
                if mp.isfinite(end) and d > 0:
                    ulp = mp.mpf(2) ** (mp.mag(end) - p) if end != 0 else mp.mpf(2) ** (mp.mag(y) - p)
                    worst = max(worst, d / ulp)
        if worst == 0:
            return "not-reproduced-by-library-reference"
        for name, lim in (("<2^-10ulp", mp.mpf(2) ** -10), ("<2^-3ulp", mp.mpf(2) ** -3), ("<=1ulp", 1), ("<=2ulp", 2)):
            if worst <= lim:
                return name
        return ">2ulp"
    finally:
        mp.prec = saved


ENCL_FUNCS = ["exp", "log", "sin", "cos", "tan", "atan2"]
REL_FUNCS = ["gamma", "rgamma", "loggamma", "factorial", "rpow"]


def fun_event(mpmath, g, eid, f, lvl, p, s, t, mayraise):
    """run one interval function call and build its ivfun / ivrel event; returns (event, meta) or None"""
    iv, mp, lm = mpmath.iv, mpmath.mp, mpmath.libmp
    iv.prec = p
    try:
        S = iv.make_mpf(s)
        if f == "atan2":
            out = lm.mpi_atan2(s, t, p) if lvl == "libmp" else iv.atan2(S, iv.make_mpf(t))._mpi_
        elif f == "rpow":
            out = lm.mpi_pow(s, t, p) if lvl == "libmp" else (S ** iv.make_mpf(t))._mpi_
        elif lvl == "libmp":
            out = getattr(lm, "mpi_" + f)(s, p)
        else:
            out = getattr(iv, f)(S)
            out = out._mpi_ if hasattr(out, "_mpi_") else None
        if out is None:
            return None
    except (ZeroDivisionError, ValueError, NotImplementedError, lm.ComplexResult) as e:
        out = e
    finally:
        iv.prec = 53
    xs = points(g, s, p, k=2)
    ys = points(g, t, p, k=1) if t else []
    pairs = []
    try:
        o = enc.exc(out) if isinstance(out, BaseException) else enc.v(out)
        if f in ENCL_FUNCS:
            w = p + 70 + (30 if f in ("sin", "cos", "tan") else 0)
            if f == "log":
                xs = [q for q in xs if q[1] and q[0] == 0]
            if f == "atan2":
                # (y, x) pairs off the branch cut and the origin
                pairs = [(a, b) for a in xs for b in ys if not (a == gen.FZERO and (b == gen.FZERO or b[0] == 1))][:8]
                x = {"f": f, "w": w, "xs": [enc.f(a) for a, b in pairs], "ys": [enc.f(b) for a, b in pairs], "mayraise": mayraise}
            else:
                x = {"f": f, "w": w, "xs": [enc.f(q) for q in xs], "ys": [], "mayraise": mayraise}
            if not x["xs"] and not isinstance(out, BaseException):
                return None
            event = enc.event(eid, "ivfun", [enc.v(s)], p, "n", o, pb=0, x=x)
        else:
            q = 3 * p + 200
            refs = []
            mp.prec = q
            try:
                for a in xs:
                    X = mp.make_mpf(a)
                    for b in (ys or [None]):
                        try:
                            if f == "rpow":
                                y = X ** mp.make_mpf(b)
                            elif f == "loggamma" and X <= 0:
                                continue
                            else:
                                if X <= 0 and X == mp.floor(X) and f != "rgamma":
                                    continue                          # a pole
                                y = getattr(mp, f)(X)
                        except (ZeroDivisionError, ValueError):
                            continue
                        if not mp.isfinite(y) or hasattr(y, "_mpc_"):
                            continue
                        if y == 0:
                            refs.append((gen.FZERO, gen.FZERO))
                        else:
                            refs.append(ref_interval(mp, y, q))
            finally:
                mp.prec = 53
            if not refs and not isinstance(out, BaseException):
                return None
            x = {"f": f, "refs": [enc.v(v) for v in refs[:8]], "mayraise": mayraise or f == "rpow"}
            event = enc.event(eid, "ivrel", [enc.v(s)] + ([enc.v(t)] if t else []), p, "n", o, pb=0, x=x)
        m = {"f": f, "lvl": lvl, "p": p, "s": [list(map(int, q)) for q in s], "t": [list(map(int, q)) for q in t] if t else [], "n": 0,
             "fun": True, "pts": [list(map(int, a)) for a, b in pairs] if f == "atan2" else [list(map(int, a)) for a in xs for b in (ys or [None])],
             "pts2": [list(map(int, b)) for a, b in pairs] if f == "atan2" else [list(map(int, b)) for a in xs for b in ys],
             "out": [list(map(int, q)) for q in out] if not isinstance(out, BaseException) else None}
        return event, m
    except enc.EncodeRange:
        return None


def function_events(chk, mpmath, g, start, n=None):
    """exp, log, sin, cos, tan, atan2 of intervals: member points judged by TLC against the spec's series
    enclosures (ivfun).  gamma, rgamma, loggamma, factorial and real powers: member points judged against
    the library's own point value at a much higher precision (ivrel, relational)."""
    r = g.r
    iv, mp, lm = mpmath.iv, mpmath.mp, mpmath.libmp
    events, meta = [], {}
    for k in range(n or chk.pick(500, 4000)):
        p = r.choice([10, 24, 53, 53, 100, r.randint(9, 160)])
        f = r.choice(ENCL_FUNCS + ENCL_FUNCS + REL_FUNCS)
        iv.prec = p
        mayraise = False
        t = None
        if f == "log":
            s = moderate_interval(g, p, 200, positive=r.random() < 0.85, mintop=-200)
            mayraise = s[0][0] == 1 or s[0] == gen.FZERO
        elif f == "exp":
            s = moderate_interval(g, p, 12)
        elif f in ("sin", "cos", "tan"):
            s = moderate_interval(g, p, r.choice([3, 3, 8, 20]))
        elif f == "atan2":
            s = moderate_interval(g, p, 30); t = moderate_interval(g, p, 30)       # y, x
        elif f == "rpow":
            s = moderate_interval(g, p, 8, positive=True, mintop=-8); t = moderate_interval(g, p, 4)
        elif f == "loggamma":
            s = moderate_interval(g, p, 10, positive=True, mintop=-10)
        else:
            s = moderate_interval(g, p, 7, positive=r.random() < 0.7, mintop=-10)
            mayraise = s[0][0] == 1 or s[0] == gen.FZERO
        lvl = r.choice(["libmp", "ctx"])
        made = fun_event(mpmath, g, start + len(events), f, lvl, p, s, t, mayraise)
        if made is not None:
            events.append(made[0]); meta[made[0]["id"]] = made[1]
    return events, meta


def conversion_events(chk, mpmath, g, start):
    """iv.mpf(x) for ints, floats, mpf, Fractions and strings must contain the denoted number"""
    r = g.r
    iv, mp = mpmath.iv, mpmath.mp
    events, meta = [], {}
    for k in range(chk.pick(250, 8000)):
        p = r.choice([5, 10, 24, 53, 100])
        iv.prec = p
        kind = r.choice(["int", "float", "mpf", "frac", "str", "strpm", "strrange"])
        try:
            if kind == "int":
                v = r.getrandbits(r.randint(1, 200)) * r.choice([1, -1])
                out = iv.mpf(v)._mpi_; xs = [gen.mk(v, 0)]
            elif kind == "float":
                v = r.choice([0.1, -2.5, 1e300, 5e-324, r.random(), r.random() * 2.0 ** r.randint(-300, 300)])
                out = iv.mpf(v)._mpi_; m, e = fractions.Fraction(v).numerator, fractions.Fraction(v).denominator
                xs = [gen.mk(m, -(e.bit_length() - 1))]
            elif kind == "mpf":
                t = g.mpf(p, special=0.0)
                out = iv.mpf(mp.make_mpf(t))._mpi_; xs = [t]
            elif kind == "frac":
                num, den = r.randint(-10 ** 6, 10 ** 6), r.randint(1, 10 ** 6)
                out = iv._mpq((num, den))._mpi_
                events.append(enc.event(start + len(events), "iv", [], p, "n", enc.v(out), pb=0,
                                        x={"f": "div", "xs": [enc.f(gen.mk(num, 0))], "ys": [enc.f(gen.mk(den, 0))], "n": 0, "mayraise": False}))
                meta[events[-1]["id"]] = {"f": "conv-frac", "lvl": "conv", "p": p, "num": num, "den": den}
                continue
            else:
                # decimal strings: the denoted number(s) are rationals num/10^k
                digs = r.randint(1, 25); num = r.randint(0, 10 ** digs) * r.choice([1, -1]); k10 = r.randint(0, 30)
                lit = "%de-%d" % (num, k10)
                if kind == "str":
                    out = iv.mpf(lit)._mpi_; nums = [num]
                elif kind == "strpm":
                    d2 = r.randint(0, 10 ** 3)
                    out = iv.mpf("%s +- %de-%d" % (lit, d2, k10))._mpi_; nums = [num - d2, num + d2, num]
                else:
                    d2 = r.randint(0, 10 ** 6)
                    out = iv.mpf("[%s, %de-%d]" % (lit, num + d2, k10))._mpi_; nums = [num, num + d2]
                for nv in nums:
                    events.append(enc.event(start + len(events), "iv", [], p, "n", enc.v(out), pb=0,
                                            x={"f": "div", "xs": [enc.f(gen.mk(nv, 0))], "ys": [enc.f(gen.mk(10 ** k10, 0))], "n": 0, "mayraise": False}))
                    meta[events[-1]["id"]] = {"f": "conv-" + kind, "lvl": "conv", "p": p, "lit": lit}
                continue
            events.append(enc.event(start + len(events), "iv", [], p, "n", enc.v(out), pb=0,
                                    x={"f": "neg", "xs": [enc.f((1 - q[0],) + q[1:] if q[1] else q) for q in xs], "ys": [], "n": 0, "mayraise": False}))
            meta[events[-1]["id"]] = {"f": "conv-" + kind, "lvl": "conv", "p": p}
        except enc.EncodeRange:
            continue
        finally:
            iv.prec = 53
    return events, meta


def replay(path):
    rec = json.load(open(path))
    bad = tlc.judge([rec["replay"]], tag=PROP)
    print("recorded event re-judged:", bad)
    raise SystemExit(1 if bad else 0)
