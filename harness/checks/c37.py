"""C37 -- pure-Python and GMP backends give identical core results.

gmpy2 is not installed in this sandbox and cannot be fetched, so the real C backend cannot run.
What can change in *mpmath* is its backend-conditional code (gmpy_mpf_mul, gmpy_mpf_mul_int,
gmpy_bitcount / trailing, numeral_gmpy, isqrt / sqrtrem / ifac aliases, tuning cutoffs).  A
pure-Python gmpy2 shim (harness/shim/gmpy2.py) makes BACKEND == 'gmpy'; the same seeded operation
stream is executed in a python-backend process and in a shim-backend process; outcomes documented as
correctly rounded must be identical raw tuples (TLC: same_repr) AND the shim-backend events must
satisfy the C02 / C03 / C05 / C06 / C09 postconditions (TLC: post); elementary functions must agree
within 1 ulp (near)."""
import json, os, subprocess, sys, tempfile
from .. import core, tlc, enc

PROP = "C37"; LEVEL = "exploration"


def run_worker(seed, n, backend, wd):
    out = os.path.join(wd, backend + ".ndjson")
    env = dict(os.environ, PYTHONHASHSEED="0")
    shim = os.path.join(core.VERIF, "harness", "shim")
    if backend == "python":
        env["MPMATH_NOGMPY"] = "1"
        env["PYTHONPATH"] = core.VERIF
    else:
        env.pop("MPMATH_NOGMPY", None)
        env["PYTHONPATH"] = shim + os.pathsep + core.VERIF
    pr = subprocess.run([sys.executable, "-m", "harness.c37_worker", str(seed), str(n), out, core.REPO], cwd=core.VERIF, env=env, capture_output=True, text=True)
    if pr.returncode != 0:
        raise tlc.MachineryError("C37 worker (%s) failed: %s" % (backend, pr.stderr[-1500:]))
    lines = open(out).read().splitlines()
    head = json.loads(lines[0]); extra = json.loads(lines[-1])["extra"]
    events = [json.loads(l) for l in lines[1:-1]]
    return head, events, extra


def main():
    chk = core.Check(PROP, LEVEL)
    n = chk.pick(500, 15000)
    wd = tlc.workdir("c37")
    try:
        h1, ev1, ex1 = run_worker(chk.seed, n, "python", wd)
        h2, ev2, ex2 = run_worker(chk.seed, n, "gmpy", wd)
    finally:
        import shutil; shutil.rmtree(wd, ignore_errors=True)
    if h1["backend"] != "python" or h2["backend"] != "gmpy":
        chk.machinery("backends not selected as intended: %r %r" % (h1, h2))
    by1 = {e["id"]: e for e in ev1}
    events, meta = [], {}
    for e in ev2:
        o = by1.get(e["id"])
        if o is None:
            continue
        chk.count()
        chk.distinct((e["op"], json.dumps(e["a"])[:400], e["p"], e["r"]), True)
        nin = 2 if e["op"] == "hash_eq" else len(e["a"])       # hash_eq logs (x, y, x == y, hash(x), hash(y)): the last three are outcomes
        if e["op"] == "hash_eq" and e["a"][2:] != o["a"][2:] and (e["a"][2] != o["a"][2] or e["a"][2]["v"]):
            # (hash(float nan) is identity-based and differs between processes; nan is equal to nothing)
            m = {"op": e["op"], "python": o["a"], "gmpy": e["a"]}
            chk.violation("differs/hash_eq", "python and gmpy(shim) backends disagree on equality or on the hash of equal values", m)
        if e["a"][:nin] != o["a"][:nin]:
            chk.machinery("operation streams diverged between the two workers at event %d" % e["id"])
        if e["o"] != o["o"]:
            m = {"op": e["op"], "p": e["p"], "r": e["r"], "python": o["o"], "gmpy": e["o"], "args": e["a"]}
            chk.violation("differs/" + e["op"], "python and gmpy(shim) backends return different raw results for %s at prec %d mode %s" % (e["op"], e["p"], e["r"]), m)
        # the shim-backend outcome is judged against the spec as well
        ev = dict(e); ev["id"] = len(events); events.append(ev); meta[ev["id"]] = {"op": e["op"], "p": e["p"], "r": e["r"], "args": e["a"], "gmpy_outcome": e["o"]}
    for a, b in zip(ex1, ex2):
        chk.count()
        if a["y"] is None or b["y"] is None:
            if (a["y"] is None) != (b["y"] is None):
                chk.violation("differs/" + a["f"], "one backend raises, the other returns for %s" % a["f"], {"python": a, "gmpy": b})
            continue
        eid = len(events)
        try:
            events.append(enc.event(eid, "near", [enc.f(tuple(a["y"])), enc.f(tuple(b["y"]))], a["p"], "n", enc.sym("none"), pb=0, x={"k": 1}))
        except enc.EncodeRange:
            if a["y"] != b["y"]:
                chk.violation("differs/" + a["f"], "backends differ on a huge result of %s" % a["f"], {"python": a, "gmpy": b})
            continue
        meta[eid] = {"op": a["f"], "p": a["p"], "x": a["x"], "python": a["y"], "gmpy": b["y"]}
    bad = tlc.judge(events, tag=PROP)
    chk.add_traces(len(events))
    for i, cl in sorted(bad.items()):
        if "post" in cl:
            m = meta[i]
            chk.violation("gmpy-path/" + m["op"], "the gmpy-backend code path violates the operation's postcondition (or elementary functions differ by more than 1 ulp): %s" % json.dumps(m)[:300], m)
    chk.sample({"backends": [h1["backend"], h2["backend"]], "events_compared": len(ev2)})
    chk.cov["rule"] = "the same seeded stream of core operations (C02, C03, C05, C06, C09 groups; elementary functions) under both backends; distinct = (op, args, precision, mode)"
    chk.assumptions += ["the gmpy2 shim reproduces gmpy2's Python-visible semantics for the functions mpmath calls; the C library itself is not exercised (not installed, no network)"]
    chk.finish()


def replay(path):
    print(open(path).read()[:2000]); raise SystemExit(0)
