"""C22 -- hypergeometric functions and orthogonal polynomials.

[E] part: terminating series with rational parameters (hyp2f1, hyp1f1, hyp3f2, hyper, jacobi) are
compared with the exact rational sum computed by TLC (Oblig!HypTerm); orthogonal polynomials of
integer degree at rational points with the three-term recurrences (Oblig!Ortho).
[R] part: the same evaluation at precisions p and 2p+30 must agree to 2^(8-p) (there is one real
number behind both) and contiguous relations between outputs hold; judged exactly on the outputs."""
import fractions
from .. import ex
from . import oblcommon

PROP = "C22"; LEVEL = "exploration"
Fr = fractions.Fraction


def rq(rng, den=(1, 2, 3, 4, 8)):
    return Fr(rng.randint(-12, 12), rng.choice(den))


def pinned_items(chk, mpmath):
    mp = mpmath.mp
    for kf in [k for k in chk.known if k.get("status") == "known" and "rep" in k]:
        rep = kf["rep"]; p = rep["p"]
        a, b, z = Fr(rep["a"]), Fr(rep["b"]), Fr(rep["z"])
        def call(q):
            mp.prec = q
            A, B, Z = mp.mpf(a.numerator) / a.denominator, mp.mpf(b.numerator) / b.denominator, mp.mpf(z.numerator) / z.denominator
            if rep["f"] == "hyp1f1": return mp.hyp1f1(A, B, Z)
            if rep["f"] == "hyperu": return mp.hyperu(A, B, abs(Z) + 1)
            return mp.hyp1f2(A, B, B + 1, Z)
        y1 = call(p); y2 = call(2 * p + 30); mp.prec = 53
        yield ex.rel0_close(y1, y2, 8, p), {"pinned": kf["key"], "key": "samereal/%s/excess<2^6" % rep["f"], "f": rep["f"], "a": rep["a"], "b": rep["b"], "z": rep["z"], "p": p, "what": "pinned representative"}


def gen(chk, mpmath, rng):
    mp = mpmath.mp
    for item in pinned_items(chk, mpmath):
        yield item
    n = chk.pick(500, 20000)
    for i in range(n):
        p = rng.choice([20, 53, 53, 100, 200, rng.randint(10, 300)])
        mp.prec = p
        c = rng.random()
        try:
            if c < 0.3:
                N = rng.randint(0, 12)
                kind = rng.choice(["2f1", "1f1", "3f2", "2f0", "hyper"])
                b, cc, d, e = rq(rng), rq(rng), rq(rng), rq(rng)
                z = rq(rng, (1, 2, 4, 8, 16))
                def ok(q):     # lower parameters must not hit a non-positive integer before the series ends
                    return not (q.denominator == 1 and -N <= q <= 0)
                if kind == "2f1":
                    if not ok(cc): continue
                    got = mp.hyp2f1(-N, mp.mpf(b.numerator) / b.denominator, mp.mpf(cc.numerator) / cc.denominator, mp.mpf(z.numerator) / z.denominator)
                    e_ = ex.hypterm([-N, b], [cc], z, N)
                elif kind == "1f1":
                    if not ok(cc): continue
                    got = mp.hyp1f1(-N, mp.mpf(cc.numerator) / cc.denominator, mp.mpf(z.numerator) / z.denominator)
                    e_ = ex.hypterm([-N], [cc], z, N)
                elif kind == "3f2":
                    if not (ok(cc) and ok(d)): continue
                    got = mp.hyp3f2(-N, mp.mpf(b.numerator) / b.denominator, mp.mpf(e.numerator) / e.denominator,
                                    mp.mpf(cc.numerator) / cc.denominator, mp.mpf(d.numerator) / d.denominator, mp.mpf(z.numerator) / z.denominator)
                    e_ = ex.hypterm([-N, b, e], [cc, d], z, N)
                elif kind == "2f0":
                    got = mp.hyp2f0(-N, mp.mpf(b.numerator) / b.denominator, mp.mpf(z.numerator) / z.denominator)
                    e_ = ex.hypterm([-N, b], [], z, N)
                else:
                    if not ok(cc): continue
                    got = mp.hyper([-N, mp.mpf(b.numerator) / b.denominator], [mp.mpf(cc.numerator) / cc.denominator], mp.mpf(z.numerator) / z.denominator)
                    e_ = ex.hypterm([-N, b], [cc], z, N)
                if not oblcommon.fin(got) or hasattr(got, "_mpc_"):
                    yield None; continue
                yield ex.rel0_close(got, e_, 8, p), {"key": "terminating/" + kind, "f": kind, "N": N, "params": [str(b), str(cc), str(d), str(e)], "z": str(z), "p": p,
                                                       "what": "terminating hypergeometric series differs from the exact rational sum"}
            elif c < 0.55:
                fam = rng.choice(["legendre", "chebyt", "chebyu", "hermite", "laguerre", "gegenbauer"])
                N = rng.randint(0, 14)
                x = rq(rng, (1, 2, 4, 8, 16))
                a = Fr(rng.randint(1, 9), rng.choice([1, 2, 4]))
                xm = mp.mpf(x.numerator) / x.denominator
                am = mp.mpf(a.numerator) / a.denominator
                if fam == "laguerre":
                    got = mp.laguerre(N, am, xm)
                elif fam == "gegenbauer":
                    got = mp.gegenbauer(N, am, xm)
                else:
                    got = getattr(mp, fam)(N, xm)
                if not oblcommon.fin(got) or hasattr(got, "_mpc_"):
                    yield None; continue
                yield ex.rel0_close(got, ex.ortho(fam, N, x, a), 8, p), {"key": "orthopoly/" + fam, "f": fam, "N": N, "x": str(x), "a": str(a), "p": p,
                                                                            "what": "orthogonal polynomial differs from its three-term recurrence value"}
            elif c < 0.85:
                # [R] cancellation-heavy alternating series: 1F1(a; b; z) with small integers a >= b and z in [-60, -10]
                # (the sum is e^z times a polynomial: thirty or more bits cancel), and 0F1 / 1F2 at large negative z
                a_ = rng.randint(1, 6); b_ = rng.randint(1, a_); z = Fr(rng.randint(-100, -40), 2)
                fam = rng.choice(["hyp1f1", "hyp1f1", "hyp1f1", "hyper", "hyper", "hyp0f1", "hyp2f2"])
                def call(q):
                    mp.prec = q
                    Z = mp.mpf(z.numerator) / z.denominator
                    if fam == "hyp1f1": return mp.hyp1f1(a_, b_, Z)
                    if fam == "hyper": return mp.hyper([a_], [b_], Z)
                    if fam == "hyp0f1": return mp.hyp0f1(b_, Z * 8)
                    return mp.hyp2f2(a_, a_ + 1, b_, b_ + 2, Z)
                y1 = call(p); y2 = call(2 * p + 60)
                if not (oblcommon.fin(y1) and oblcommon.fin(y2)) or hasattr(y1, "_mpc_") or hasattr(y2, "_mpc_"):
                    yield None; continue
                yield ex.rel0_close(y1, y2, 8, p), {"key": "samereal/cancellation-" + fam, "f": fam, "a": a_, "b": b_, "z": str(z), "p": p,
                                                       "what": "values at precisions p and 2p+60 of a heavily cancelling series are not approximations of one real number"}
            else:
                # [R]: one real number behind the values at two precisions; contiguous relation for 1F1
                a, b = rq(rng), Fr(rng.randint(1, 12), rng.choice([1, 2, 3]))
                z = Fr(rng.randint(-40, 40), rng.choice([1, 2, 4, 8]))
                f = rng.choice(["hyp1f1", "hyp2f1", "hyp0f1", "hyperu", "legenp", "hyp1f2"])
                def call(q):
                    mp.prec = q
                    A, B, Z = mp.mpf(a.numerator) / a.denominator, mp.mpf(b.numerator) / b.denominator, mp.mpf(z.numerator) / z.denominator
                    if f == "hyp1f1": return mp.hyp1f1(A, B, Z)
                    if f == "hyp2f1": return mp.hyp2f1(A, B / 3, B + 1, Z / 64)
                    if f == "hyp0f1": return mp.hyp0f1(B, Z)
                    if f == "hyperu": return mp.hyperu(A, B, abs(Z) + 1)
                    if f == "legenp": return mp.legenp(A, 0, Z / 64)
                    return mp.hyp1f2(A, B, B + 1, Z)
                y1 = call(p); y2 = call(2 * p + 30)
                if not (oblcommon.fin(y1) and oblcommon.fin(y2)) or hasattr(y1, "_mpc_") or hasattr(y2, "_mpc_"):
                    yield None; continue
                # classification for reporting / known-finding keys only: by how many bits is the stated bound exceeded?
                mp.prec = 2 * p + 60
                exc = abs(y1 - y2) / abs(y2) / mp.mpf(2) ** (8 - p) if y2 != 0 else mp.mpf(0)
                band = "/excess<2^6" if 1 < exc < 64 else ""
                mp.prec = p
                yield ex.rel0_close(y1, y2, 8, p), {"key": "samereal/" + f + band, "f": f, "a": str(a), "b": str(b), "z": str(z), "p": p,
                                                       "what": "values at precisions p and 2p+30 are not approximations of one real number"}
        except (ZeroDivisionError, ValueError, TypeError, mpmath.libmp.NoConvergence, NotImplementedError):
            yield None


def main():
    oblcommon.run(PROP, LEVEL, gen,
                  "seeded rational parameters/arguments: terminating series vs exact rational sums, orthogonal polynomials vs recurrences, "
                  "cross-precision consistency; distinct = (function, parameters, argument, precision)",
                  ["[R] part is a necessary condition only: an error common to both precisions is invisible to it"])


replay = oblcommon.replay
