"""C32 -- matrix functions are mutually consistent.

[E by residuals between outputs]: expm(logm A) = A, sqrtm(A)^2 = A, powm(A, k) = A**k for integer k,
cosm(A)^2 + sinm(A)^2 = I, both expm methods agree, expm of a diagonal matrix is diagonal with
entries whose ratios match exp(d_i - d_j) consistency across precisions -- exact obligations on the
returned entries, tolerance ||A|| 2^(10-p) n^2 (max norm)."""
from .. import ex
from . import oblcommon
from .c31 import cmat

PROP = "C32"; LEVEL = "exploration"


def gen(chk, mpmath, rng):
    mp = mpmath.mp
    for i in range(chk.pick(200, 4000)):
        p = rng.choice([30, 53, 80, 120, 200])
        mp.prec = p
        n = rng.randint(1, 3)
        A = mp.matrix([[mp.mpf(rng.randint(-4, 4)) / rng.choice([1, 2, 4]) for _ in range(n)] for _ in range(n)])
        for d in range(n):
            A[d, d] += 6 + d                          # positive spectrum region (Gershgorin for n <= 3 with |off-diagonal| <= 4 needs more, but entries are mostly small): log / sqrt well defined; never the zero matrix (logm(0) does not return)
        kind = rng.random()
        I = [[(ex.Z(int(r == c)), ex.Z(0)) for c in range(n)] for r in range(n)]
        tol2 = lambda M: ex.mul(ex.pow2(2 * (10 - p)), ex.mx(ex.cmaxabs2(M), 1), (n * n) ** 2 * 16)
        try:
            if kind < 0.22:
                B = mp.expm(mp.logm(A), method=rng.choice(["taylor", "pade"])); Ae = cmat(A)
                yield ex.le(ex.cmaxabs2(ex.cmatsub(cmat(B), Ae)), tol2(Ae)), {"key": "expm(logm)", "A": str(A), "p": p, "what": "expm(logm(A)) != A"}
            elif kind < 0.42:
                S = cmat(mp.sqrtm(A)); Ae = cmat(A)
                yield ex.le(ex.cmaxabs2(ex.cmatsub(ex.cmatmul(S, S), Ae)), tol2(Ae)), {"key": "sqrtm^2", "A": str(A), "p": p, "what": "sqrtm(A)^2 != A"}
            elif kind < 0.6:
                k = rng.randint(0, 4)
                P = cmat(mp.powm(A, k)); Q = cmat(A ** k)
                yield ex.le(ex.cmaxabs2(ex.cmatsub(P, Q)), tol2(Q)), {"key": "powm", "A": str(A), "k": k, "p": p, "what": "powm(A, k) != A**k"}
            elif kind < 0.78:
                A2 = A / 4
                C = cmat(mp.cosm(A2)); S = cmat(mp.sinm(A2))
                R = ex.cmatsub([[ex.cadd(x, y) for x, y in zip(r1, r2)] for r1, r2 in zip(ex.cmatmul(C, C), ex.cmatmul(S, S))], I)
                yield ex.le(ex.cmaxabs2(R), ex.mul(ex.pow2(2 * (10 - p)), ex.mx(ex.cmaxabs2(C), ex.cmaxabs2(S), 1), (n * n) ** 2 * 16)), {"key": "cosm^2+sinm^2", "A": str(A2), "p": p, "what": "cosm(A)^2 + sinm(A)^2 != I"}
            elif kind < 0.9:
                E1 = cmat(mp.expm(A, method="taylor")); E2 = cmat(mp.expm(A, method="pade"))
                yield ex.le(ex.cmaxabs2(ex.cmatsub(E1, E2)), tol2(E1)), {"key": "expm/methods", "A": str(A), "p": p, "what": "the two expm methods disagree"}
            else:
                d = [mp.mpf(rng.randint(-6, 6)) / 2 for _ in range(n)]
                D = mp.diag(d)
                E = mp.expm(D, method=rng.choice(["taylor", "pade"]))
                mp.prec = 2 * p + 30
                ref = [mp.exp(v) for v in d]
                mp.prec = p
                js = [ex.eq(ex.cnorm2(ex.c_of(E[r, c])), 0) for r in range(n) for c in range(n) if r != c]
                js += [ex.rel_close(E[r, r].real if hasattr(E[r, r], "_mpc_") else E[r, r], ref[r], 10, p) for r in range(n)]
                yield ex.allj(*js), {"key": "expm/diagonal", "d": [str(v) for v in d], "p": p, "what": "expm(diag(d)) != diag(exp(d)) (exp taken from the library at higher precision: relational)"}
        except (ZeroDivisionError, ValueError, TypeError, mpmath.libmp.NoConvergence):
            yield None


def main():
    oblcommon.run(PROP, LEVEL, gen,
                  "seeded small diagonalisable matrices with spectrum away from the negative axis; distinct = (identity, matrix, precision)",
                  ["tolerance ||A|| * 2^(10-p) * 4 n^2 in the max norm", "diag(exp d) is taken from the library's own exp at 2p+30 bits (relational until the series oracle is wired in)"])


replay = oblcommon.replay
