"""C34 -- ODE solutions are accurate and independent of evaluation order.

M1: OdeSeg (TLC): OrderFree over all query orders incl. aborts (interior points); the boundary-point
    order dependence of the segment choice is exhibited by cfg/OdeSeg_boundary.cfg (expected
    counterexample; values at boundary points are compared too, see below).
M2: every history of OdeSeg_interior is replayed on real odefun interpolants (scalar y'=-y^2, y'=y,
    vector harmonic oscillator): the number of segments read from the closure must equal the spec's
    after each step, x < x0 must raise, an exception injected inside ode_taylor must append nothing,
    and the value at x must be bit-identical to the value a fresh interpolant gives when asked for x
    only -- with the working precision changed between queries.
M3: accuracy of the rational solution 1/(1+x) judged exactly by TLC (op ode_rational)."""
import json, random
from .. import core, tlc, enc, precrec
from . import c33

PROP = "C34"; LEVEL = "model_checking"


def closure_var(fn, name):
    d = dict(zip(fn.__code__.co_freevars, [c.cell_contents for c in fn.__closure__ or ()]))
    if name in d:
        return d[name]
    for v in d.values():
        if callable(v) and getattr(v, "__closure__", None):
            try:
                return closure_var(v, name)
            except KeyError:
                pass
    raise KeyError(name)


SYSTEMS = {
    "rational": (lambda mp: (lambda x, y: -y ** 2), 0, lambda mp: 1),
    "exp": (lambda mp: (lambda x, y: y), 0, lambda mp: 1),
    "harmonic": (lambda mp: (lambda x, y: [y[1], -y[0]]), 0, lambda mp: [1, 0]),
}


def make(mpmath, name):
    mp = mpmath.mp
    F, x0, y0 = SYSTEMS[name]
    return mp.odefun(F(mp), x0, y0(mp))


def raw(v):
    if isinstance(v, list):
        return [x._mpf_ for x in v]
    return v._mpf_


def main():
    chk = core.Check(PROP, LEVEL)
    mpmath = core.use_repo()
    mp = mpmath.mp
    rng = random.Random(chk.seed * 4099 + 34)
    res = tlc.run_model("OdeSeg", "OdeSeg_boundary.cfg")
    chk.add_model(res, "OdeSeg/OdeSeg_boundary.cfg (expected counterexample)")
    if res["violated"] != "OrderFree":
        chk.machinery("OdeSeg_boundary: the boundary-point order dependence was not exhibited (vacuity guard)")
    hs = c33.histories(chk, "OdeSeg", "OdeSeg_interior.cfg", chk.pick(250, 3058), rng)
    L = 2
    inj = precrec.Injector({"ode_taylor": mpmath.calculus.odes.ode_taylor.__code__})
    events = []
    ntr = 0
    try:
        for name in SYSTEMS:
            mp.prec = 53
            ref = make(mpmath, name)
            ref(mp.mpf(3))                       # populate boundaries of a reference instance
            rb = list(closure_var(ref, "series_boundaries"))
            if len(rb) < 6:
                ref(rb[-1] * 3); rb = list(closure_var(ref, "series_boundaries"))
            spread = [1]
            def realx(p):
                """model position p (interior of segment k = p // L, or below x0) -> real abscissa.
                spread = 1: model segment k is real segment k (projection comparable with the spec);
                spread = 4: model segment k is real segment 4k+1, so a wrongly chosen segment is far away"""
                if p < 0:
                    return mp.mpf(-1) / 3
                k, off = divmod(p, L)
                k = k if spread[0] == 1 else min(spread[0] * k + 1, len(rb) - 2)
                return rb[k] + (rb[k + 1] - rb[k]) * mp.mpf(off) / L * mp.mpf(15) / 16 + (rb[k + 1] - rb[k]) / 64
            fresh_cache = {}
            def fresh_value(p):
                if p not in fresh_cache:
                    mp.prec = 53
                    g = make(mpmath, name)
                    fresh_cache[p] = raw(g(realx(p)))
                return fresh_cache[p]
            for hi_, h in enumerate(hs[: chk.pick(80, 3058)] * 2):
                spread[0] = 1 if hi_ < len(hs[: chk.pick(80, 3058)]) else 4
                if spread[0] == 4 and hi_ == len(hs[: chk.pick(80, 3058)]):
                    fresh_cache.clear()
                mp.prec = 53
                f = make(mpmath, name)
                for step, a in enumerate(h["h"]):
                    x = realx(a["x"])
                    chk.count()
                    if a["a"] == "Query":
                        try:
                            if rng.random() < 0.5:                  # precision changes between evaluations:
                                mp.prec = rng.choice([30, 80, 200])   # the same point is first asked for at another
                                f(x)                                  # precision (segments may be created there)
                            mp.prec = 53
                            v = f(x); raised = False
                        except ValueError:
                            raised = True
                        finally:
                            mp.prec = 53
                        if raised != a["raises"]:
                            chk.violation("query/raise", "odefun(%s) raises=%s, spec says %s" % (x, raised, a["raises"]), {"sys": name, "hist": h, "step": step})
                        if not raised and raw(v) != fresh_value(a["x"]):
                            chk.violation("query/order-dependent-value", "value at x=%s depends on earlier queries %s" % (x, json.dumps(h["h"][:step + 1])),
                                          {"sys": name, "hist": h, "step": step})
                        if not raised and name == "rational" and step == len(h["h"]) - 1:
                            events.append(enc.event(len(events), "ode_rational", [enc.f(v._mpf_), enc.f(x._mpf_)], 53, "n", enc.sym("none"), pb=0, x={"k": 10}))
                    else:
                        inj.begin(("ode_taylor", 1))
                        try:
                            f(x)
                        except precrec.Injected:
                            pass
                        inj.arm = None
                    nseg = len(closure_var(f, "series_boundaries")) - 1
                    if spread[0] == 1 and nseg != a["nseg"]:
                        chk.violation("segments/projection", "%d segments after %s, spec says %d" % (nseg, json.dumps(h["h"][:step + 1]), a["nseg"]),
                                      {"sys": name, "hist": h, "step": step})
                ntr += 1
                chk.distinct(name + str(spread[0]) + json.dumps(h), True)
    finally:
        inj.close()
        mp.prec = 53
    bad = tlc.judge(events, tag=PROP, shards=4)
    for i, cl in bad.items():
        if "post" in cl:
            chk.violation("accuracy/rational", "odefun solution of y'=-y^2 is not within 2^(10-p) of 1/(1+x)", events[i])
    chk.add_traces(ntr)
    chk.sample({"history": hs[0]} if hs else "none")
    chk.cov["rule"] = "every history (queries in all orders, aborts) of OdeSeg_interior replayed on three real systems; distinct = (system, history)"
    chk.assumptions += ["segment boundaries of identical odefun instances are deterministic", "exp/harmonic accuracy is judged when the RealFun oracle is wired in (C12)"]
    chk.finish()


def replay(path):
    print(open(path).read()[:3000]); raise SystemExit(0)
