"""C43 -- the fp context matches mp conventions for elementary functions.

[E relative to mp, as the property is stated]: for every finite double argument class, fp results
are Python float / complex; a real argument outside the real domain gives the principal complex
value (no exception); fp and mp (53 bits) agree to 2^-48 relative or 2^-300 absolute -- decided by
TLC on the exact dyadic values of the two results (the doubles are logged bit-exactly)."""
import math, struct
from .. import ex
from . import oblcommon

PROP = "C43"; LEVEL = "exploration"
FUNCS = ["sqrt", "exp", "log", "sin", "cos", "tan", "sinh", "cosh", "tanh", "asin", "acos", "atan", "asinh", "acosh", "atanh", "cbrt", "cospi", "sinpi",
         "sec", "csc", "cot"]


def gen(chk, mpmath, rng):
    mp, fp = mpmath.mp, mpmath.fp
    mp.prec = 53
    pinned = [k for k in chk.known if k.get("status") == "known" and "rep" in k]
    nmain = chk.pick(1500, 60000)
    for i in range(nmain + len(pinned)):
        f = rng.choice(FUNCS + ["power"])
        c = rng.random()
        pin = None
        if i >= nmain:
            pin = pinned[i - nmain]; f = pin["rep"]["f"]; c = 2
            x = float.fromhex(pin["rep"]["x"])
        elif c < 0.3:
            x = rng.uniform(-4, 4)
        elif c < 0.5:
            x = rng.choice([0.5, -0.5, 1.5, -1.5, 2.5, 1.0, -1.0, 2.0, 0.25, 1e-5, -1e-7, 3.0, -3.0, 10.0])
        elif c < 0.7:
            x = rng.uniform(-1, 1) * 10.0 ** rng.randint(-20, 2)
        elif c < 0.85:
            x = rng.uniform(-60, 60)
        else:
            x = math.ldexp(rng.random() + 0.5, rng.randint(-30, 8)) * rng.choice([1, -1])
        if f in ("exp", "sinh", "cosh", "expm1") and abs(x) > 300:
            x = x / 10
        if f in ("cot", "csc") and x == 0:
            continue
        try:
            if f == "power":
                y = rng.choice([0.5, 2.0, -1.5, 3.0, 1 / 3.0, rng.uniform(-3, 3)])
                a = fp.power(x, y); b = mp.power(x, y)
                args = [x, y]
            else:
                if not hasattr(fp, f) or not hasattr(mp, f):
                    continue
                a = getattr(fp, f)(x); b = getattr(mp, f)(x)
                args = [x]
        except (ZeroDivisionError, ValueError, OverflowError) as e:
            # fp raising where mp returns a value (or vice versa) is a convention mismatch only for domain errors
            try:
                b = getattr(mp, f)(x) if f != "power" else None
                mp_ok = True
            except Exception:
                mp_ok = False
            if mp_ok and isinstance(e, ValueError) and f != "power":
                yield {"j": "false"}, {"key": "raises/" + f, "x": x.hex(), "exc": repr(e), "what": "fp raised for an argument where mp returns the principal value"}
            else:
                yield None
            continue
        if not isinstance(a, (float, complex)):
            yield {"j": "false"}, {"key": "type/" + f, "x": x.hex(), "type": str(type(a)), "what": "fp result is not a Python float / complex"}; continue
        ac = complex(a)
        bc = complex(b) if not hasattr(b, "_mpc_") else None
        bz = ex.c_of(b)
        if any(v != v or abs(v) == float("inf") for v in (ac.real, ac.imag)):
            yield None; continue
        az = (ex.val(ac.real), ex.val(ac.imag))
        is_cplx_mp = hasattr(b, "_mpc_") and b._mpc_[1] != (0, 0, 0, 0)
        if is_cplx_mp != (isinstance(a, complex) and a.imag != 0) and is_cplx_mp:
            yield {"j": "false"}, {"key": "domain/" + f, "x": x.hex(), "fp": repr(a), "mp": str(b), "what": "mp returns a complex principal value but fp returns a real"}; continue
        j = ex.anyj(ex.le(ex.cnorm2(ex.csub(az, bz)), ex.mul(ex.pow2(-96), ex.cnorm2(bz))), ex.le(ex.cnorm2(ex.csub(az, bz)), ex.pow2(-600)))
        sig = ""
        if f in ("asin", "acos") and abs(x) > 1:
            sig = "/real-|x|>1"
        elif f in ("cospi", "sinpi") and abs(x) >= 16:
            sig = "/|x|>=16"
        elif f in ("cospi", "sinpi") and not hasattr(b, "_mpc_") and abs(b) < 0.0625:
            sig = "/near-zero"                  # next to a zero of the function: the reduced argument is formed in double arithmetic
        elif f == "atanh" and abs(x) > 1:
            sig = "/real-|x|>1"
        elif f == "acosh" and x < 1:
            sig = "/real-x<1"
        yield j, {"pinned": pin["key"] if pin else None, "key": "agree/" + f + sig, "f": f, "args": [v.hex() for v in args], "fp": repr(a), "what": "fp and mp(53 bits) differ by more than 2^-48 relative and 2^-300 absolute", "p": 53}


def main():
    oblcommon.run(PROP, LEVEL, gen,
                  "seeded doubles of every magnitude class for each elementary function; distinct = (function, argument)",
                  ["agreement is relative to mp at 53 bits, as the property is stated"])


replay = oblcommon.replay
