"""C08 -- printed numbers round-trip and are nearest decimal approximations.

M3: repr / str / nstr of values generated near decimal rounding boundaries (the p-bit neighbours of
    n-digit decimals), with mantissas longer than the printing precision, huge exponents and every
    formatting option; TLC parses the printed bytes with DecPost!DecVal and judges
    PostReprRoundTrip (x = Round(DecVal(repr x), prec)) and PostNearestDigits (at most n digits, no
    n-digit decimal strictly closer)."""
import json, random, re
from .. import core, tlc, gen, enc

PROP = "C08"; LEVEL = "exploration"


def near_decimal(rng, g, p):
    """an mpf within a few ulps (at precision p or longer) of an n-digit decimal or of the midpoint of two"""
    n = rng.randint(1, 25)
    D = rng.randint(10 ** (n - 1), 10 ** n - 1)
    E = rng.randint(-40, 40)
    twice = 2 * D + rng.choice([0, 1])              # decimal or midpoint between neighbouring decimals (in units of 10^E / 2)
    # value = twice * 10^E / 2 ; approximate by an integer ratio and cut to q bits
    q = p + rng.choice([0, 0, 5, 30])
    num = twice * 10 ** max(E, 0)
    den = 2 * 10 ** max(-E, 0)
    sh = q + den.bit_length() - num.bit_length() + 1
    m = (num << sh) // den if sh >= 0 else (num >> -sh) // den
    m += rng.choice([0, 0, 1, -1, 2])
    if m <= 0:
        m = 1
    return gen.mk(m * rng.choice([1, -1]), -sh), n


def text_of_repr(s):
    m = re.fullmatch(r"mpf\('(.*)'\)", s)
    return m.group(1) if m else None


def main():
    chk = core.Check(PROP, LEVEL)
    mpmath = core.use_repo()
    lm, mp = mpmath.libmp, mpmath.mp
    g = gen.G(chk.seed * 1000003 + 8)
    rng = g.r
    events, meta = [], {}
    n = chk.pick(1800, 60000)
    for i in range(n):
        p = rng.choice([rng.randint(1, 12), 24, 53, 53, 54, 54, 54, 55, 56, 64, 100, 113, rng.randint(13, 400)])
        c = rng.random()
        if c < 0.5:
            x, nd = near_decimal(rng, g, p)
        else:
            x = g.mpf(p, special=0.08)
            nd = rng.randint(1, 60)
        if x[1] and abs(x[2]) > 30000:
            x = (x[0], x[1], rng.choice([-1, 1]) * rng.randint(3000, 14000), x[3])
        kind = rng.choice(["repr", "repr", "nstr", "nstr", "str", "to_str"])
        try:
            mp.prec = p
            X = mp.make_mpf(x)
            if kind == "repr":
                # repr round-trips values of the working precision: round x to it first
                X = +X; x = X._mpf_
                txt = text_of_repr(repr(X))
                if txt is None:
                    chk.violation("repr/format", "repr(%r) is not of the form mpf('...')" % (x,), {"x": list(map(int, x)), "p": p}); continue
                op, extra, nn = "repr", [], 0
            elif kind == "str":
                txt = str(X); nn = mp._str_digits; op = "nstr"
            elif kind == "nstr":
                nn = nd
                kw = {}
                r2 = rng.random()
                if r2 < 0.2: kw["min_fixed"] = rng.choice([-5, -100, 0]); kw["max_fixed"] = rng.choice([5, 100, 0])
                elif r2 < 0.3: kw["strip_zeros"] = False
                elif r2 < 0.4: kw["show_zero_exponent"] = True
                elif r2 < 0.45: kw["min_fixed"] = -mp.inf; kw["max_fixed"] = mp.inf
                txt = mp.nstr(X, nn, **kw); op = "nstr"
            else:
                nn = nd
                txt = lm.to_str(x, nn); op = "nstr"
        except Exception as e:
            chk.violation("%s/raises" % kind, "printing raised %r for %r at prec %d" % (e, x, p), {"x": list(map(int, x)), "p": p, "kind": kind})
            continue
        finally:
            mp.prec = 53
        if len(txt) > 1500 and -2000 < x[2] < 2000:
            pass
        eid = len(events)
        try:
            args = [enc.f(x), enc.s(txt)] + ([enc.z(nn)] if op == "nstr" else [])
            events.append(enc.event(eid, op, args, p, "n", enc.sym("none"), pb=0))
            meta[eid] = {"kind": kind, "x": list(map(int, x)), "p": p, "n": nn, "text": txt[:100]}
        except enc.EncodeRange:
            continue
    # complex repr: both parts
    for i in range(chk.pick(100, 3000)):
        p = rng.choice([24, 53, 100])
        mp.prec = p
        try:
            z = mp.mpc(+mp.make_mpf(g.mpf(p, special=0.0)), +mp.make_mpf(g.mpf(p, special=0.0)))
            m = re.fullmatch(r"mpc\(real='(.*)', imag='(.*)'\)", repr(z))
        finally:
            mp.prec = 53
        if not m:
            chk.violation("repr/format-mpc", "repr of an mpc is not mpc(real='..', imag='..')", {"p": p}); continue
        for part, txt in zip(z._mpc_, m.groups()):
            if abs(part[2]) > 30000: continue
            eid = len(events)
            events.append(enc.event(eid, "repr", [enc.f(part), enc.s(txt)], p, "n", enc.sym("none"), pb=0))
            meta[eid] = {"kind": "repr-mpc", "x": list(map(int, part)), "p": p, "n": 0, "text": txt[:100]}
    bad = tlc.judge(events, tag=PROP)
    for ev in events:
        chk.count(); chk.distinct((ev["op"], json.dumps(meta[ev["id"]]["x"]), ev["p"], meta[ev["id"]]["n"]), len(ev["a"][0]["m"]) > 0)
    chk.add_traces(len(events))
    for ev in events[:4]:
        chk.sample(meta[ev["id"]])
    for i, cl in sorted(bad.items()):
        if "post" in cl:
            m = meta[i]
            sig = ""
            if m["kind"] in ("repr", "repr-mpc"):
                sig = "/prec=%d" % m["p"] if 54 <= m["p"] <= 56 else ""
            chk.violation("%s%s" % (m["kind"], sig), "printed form of %r at prec %d (n=%d) is %r" % (tuple(m["x"]), m["p"], m["n"], m["text"]), m)
    chk.cov["rule"] = ("values within a few ulps of n-digit decimals and of midpoints between them, random values incl. specials and huge exponents, "
                       "all formatting options; distinct = (operation, value, precision, digits); non-trivial = nonzero finite")
    chk.finish()


def replay(path):
    chk = core.Check(PROP, LEVEL)
    mpmath = core.use_repo()
    mp = mpmath.mp
    m = json.load(open(path))["replay"]
    x = tuple(m["x"]); mp.prec = m["p"]
    X = mp.make_mpf(x)
    if m["kind"].startswith("repr"):
        txt = text_of_repr(repr(X)); ev = enc.event(0, "repr", [enc.f(x), enc.s(txt)], m["p"], "n", enc.sym("none"))
    else:
        txt = mp.nstr(X, m["n"]); ev = enc.event(0, "nstr", [enc.f(x), enc.s(txt), enc.z(m["n"])], m["p"], "n", enc.sym("none"))
    mp.prec = 53
    bad = tlc.judge([ev], tag=PROP)
    print(x, m["p"], txt, "verdict", bad)
    raise SystemExit(1 if bad else 0)
