"""C35 -- integer relation results are genuine relations.

[E]: every vector returned by pslq is re-checked against the inputs (nonzero integer vector,
max|c_k| < maxcoeff, |sum c_k x_k| <= tol * ||x||_2 stated without square roots as
(sum c_k x_k)^2 <= tol^2 * sum x_k^2) in exact dyadic arithmetic; planted small relations between
algebraic / rational inputs must be found when the precision suffices; findpoly returns integer
polynomials of degree <= n with |P(x)| within tolerance (exact evaluation at the dyadic x)."""
import fractions
from .. import ex
from . import oblcommon

PROP = "C35"; LEVEL = "exploration"
Fr = fractions.Fraction


def gen(chk, mpmath, rng):
    mp = mpmath.mp
    for i in range(chk.pick(160, 4000)):
        p = rng.choice([53, 80, 120, 200])
        mp.prec = p
        kind = rng.random()
        try:
            if kind < 0.55:
                k = rng.randint(2, 5)
                # planted relation: x_k = -(sum c_j x_j)/c_k with c small, x_j "generic" irrationals
                basis = [mp.sqrt(2), mp.sqrt(3), mp.pi, mp.e, mp.log(2), mp.sqrt(5), mp.euler]
                rng.shuffle(basis)
                xs = basis[:k - 1]
                c = [rng.randint(-9, 9) or 1 for _ in range(k)]
                xs.append(-sum(cj * xj for cj, xj in zip(c, xs)) / c[-1])
                maxcoeff = rng.choice([100, 1000])
                tol = mp.mpf(2) ** (-(p * 3) // 4)
                res = mp.pslq(xs, tol=tol, maxcoeff=maxcoeff, maxsteps=20000)
                if res is None:
                    # an exact small relation exists and the precision (p >= 53 bits for <=5 terms with 1-digit coefficients) suffices
                    yield {"j": "false"}, {"key": "pslq/not-found", "c": c, "p": p, "what": "a planted small integer relation was not found"}
                    continue
                s = ex.R(ex.add(*[ex.mul(int(ci), xi) for ci, xi in zip(res, xs)]))
                js = [ex.le(ex.sq(s), ex.mul(ex.sq(tol), ex.add(*[ex.sq(xi) for xi in xs])))]
                js += [ex.lt(ex.ab(int(ci)), maxcoeff) for ci in res]
                js.append(ex.lt(0, ex.add(*[ex.ab(int(ci)) for ci in res])))
                yield ex.allj(*js), {"key": "pslq/relation", "found": [int(v) for v in res], "planted": c, "p": p, "what": "the returned vector is not an integer relation within tol*||x||, or violates maxcoeff / nonzero"}
            elif kind < 0.75:
                # generic vectors: whatever is returned must be a relation; None is fine
                k = rng.randint(2, 4)
                xs = [mp.mpf(rng.randint(1, 10 ** 6)) / rng.randint(1, 10 ** 6) + mp.sqrt(rng.randint(2, 50)) * rng.randint(0, 1) for _ in range(k)]
                tol = mp.mpf(2) ** (-rng.randint(10, p - 8))
                maxcoeff = rng.choice([10, 100, 10 ** 4])
                res = mp.pslq(xs, tol=tol, maxcoeff=maxcoeff, maxsteps=2000)
                if res is None:
                    yield None; continue
                s = ex.R(ex.add(*[ex.mul(int(ci), xi) for ci, xi in zip(res, xs)]))
                js = [ex.le(ex.sq(s), ex.mul(ex.sq(tol), ex.add(*[ex.sq(xi) for xi in xs])))] + [ex.lt(ex.ab(int(ci)), maxcoeff) for ci in res]
                js.append(ex.lt(0, ex.add(*[ex.ab(int(ci)) for ci in res])))
                yield ex.allj(*js), {"key": "pslq/generic", "found": [int(v) for v in res], "p": p, "tol_bits": str(tol), "maxcoeff": maxcoeff,
                                     "what": "pslq returned a vector that is not a relation within tol*||x|| / maxcoeff"}
            else:
                # findpoly on an algebraic number: root of a planted integer polynomial
                deg = rng.randint(1, 3)
                r = rng.choice([mp.sqrt(2), mp.sqrt(3) + 1, mp.cbrt(5), (1 + mp.sqrt(5)) / 2, mp.mpf(7) / 3, mp.sqrt(2) + mp.sqrt(3)])
                n = rng.randint(2, 5)
                tol = mp.mpf(2) ** (-(p // 2))
                res = mp.findpoly(r, n, maxcoeff=1000, tol=tol)
                if res is None:
                    yield None; continue
                coeffs = [int(v) for v in res]            # highest degree first
                val = ex.poly(list(reversed(coeffs)), r)
                js = [ex.le(ex.ab(val), ex.mul(tol, ex.mx(*[ex.ab(ex.mul(cf, ex.powi(r, len(coeffs) - 1 - t))) for t, cf in enumerate(coeffs)], 1), n + 1)),
                      ex.lt(0, ex.add(*[ex.ab(cf) for cf in coeffs]))]
                yield ex.allj(*js), {"key": "findpoly", "poly": coeffs, "n": n, "p": p, "what": "findpoly returned a polynomial that does not vanish at x within tolerance, or of too high degree"} if len(coeffs) <= n + 1 else \
                    ({"j": "false"}, {"key": "findpoly/degree", "poly": coeffs, "n": n, "p": p, "what": "findpoly returned a polynomial of degree above n"})
        except (ZeroDivisionError, ValueError, TypeError):
            yield None


def main():
    oblcommon.run(PROP, LEVEL, gen,
                  "planted and generic pslq instances and findpoly on algebraic numbers; distinct = (inputs, tolerance, precision)",
                  ["'precision suffices' for planted relations: <= 5 terms, one-digit coefficients, >= 53 bits, tol = 2^(-3p/4)",
                   "identify() is not judged (its output grammar is not modelled)"])


replay = oblcommon.replay
