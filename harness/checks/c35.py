"""C35 -- integer relation results are genuine relations.

[E]: every vector returned by pslq is re-checked against the inputs (nonzero integer vector,
max|c_k| < maxcoeff, |sum c_k x_k| <= tol * ||x||_2 stated without square roots as
(sum c_k x_k)^2 <= tol^2 * sum x_k^2) in exact dyadic arithmetic; planted small relations between
algebraic / rational inputs must be found when the precision suffices; findpoly returns integer
polynomials of degree <= n with |P(x)| within tolerance (exact evaluation at the dyadic x)."""
import fractions
from .. import ex
from . import oblcommon

PROP = "C35"; LEVEL = "exploration"
Fr = fractions.Fraction


def sf_q2m(mp, q):
    return mp.mpf(q.numerator) / q.denominator


def eval_identified(mp, expr):
    """evaluate an identify() result at the working precision: integer literals become exact mpf numbers"""
    import ast
    tree = ast.parse(expr, mode="eval")

    class Wrap(ast.NodeTransformer):
        def visit_Constant(self, node):
            if isinstance(node.value, int) and not isinstance(node.value, bool):
                return ast.copy_location(ast.Call(func=ast.Name(id="_num", ctx=ast.Load()), args=[node], keywords=[]), node)
            return node
    tree = ast.fix_missing_locations(Wrap().visit(tree))
    ns = {"_num": mp.mpf, "sqrt": mp.sqrt, "exp": mp.exp, "log": mp.log, "pi": +mp.pi, "e": +mp.e, "__builtins__": {}}
    return eval(compile(tree, "<identify>", "eval"), ns)


def gen(chk, mpmath, rng):
    mp = mpmath.mp
    for i in range(chk.pick(160, 4000)):
        p = rng.choice([53, 80, 120, 200])
        mp.prec = p
        kind = rng.random()
        try:
            if kind < 0.55:
                k = rng.randint(2, 5)
                # planted relation: x_k = -(sum c_j x_j)/c_k with c small, x_j "generic" irrationals
                basis = [mp.sqrt(2), mp.sqrt(3), mp.pi, mp.e, mp.log(2), mp.sqrt(5), mp.euler]
                rng.shuffle(basis)
                xs = basis[:k - 1]
                c = [rng.randint(-9, 9) or 1 for _ in range(k)]
                xs.append(-sum(cj * xj for cj, xj in zip(c, xs)) / c[-1])
                maxcoeff = rng.choice([100, 1000])
                tol = mp.mpf(2) ** (-(p * 3) // 4)
                res = mp.pslq(xs, tol=tol, maxcoeff=maxcoeff, maxsteps=20000)
                if res is None:
                    # an exact small relation exists and the precision (p >= 53 bits for <=5 terms with 1-digit coefficients) suffices
                    yield {"j": "false"}, {"key": "pslq/not-found", "c": c, "p": p, "what": "a planted small integer relation was not found"}
                    continue
                s = ex.R(ex.add(*[ex.mul(int(ci), xi) for ci, xi in zip(res, xs)]))
                js = [ex.le(ex.sq(s), ex.mul(ex.sq(tol), ex.add(*[ex.sq(xi) for xi in xs])))]
                js += [ex.lt(ex.ab(int(ci)), maxcoeff) for ci in res]
                js.append(ex.lt(0, ex.add(*[ex.ab(int(ci)) for ci in res])))
                yield ex.allj(*js), {"key": "pslq/relation", "found": [int(v) for v in res], "planted": c, "p": p, "what": "the returned vector is not an integer relation within tol*||x||, or violates maxcoeff / nonzero"}
            elif kind < 0.75:
                # generic vectors: whatever is returned must be a relation; None is fine
                k = rng.randint(2, 4)
                xs = [mp.mpf(rng.randint(1, 10 ** 6)) / rng.randint(1, 10 ** 6) + mp.sqrt(rng.randint(2, 50)) * rng.randint(0, 1) for _ in range(k)]
                tol = mp.mpf(2) ** (-rng.randint(10, p - 8))
                maxcoeff = rng.choice([10, 100, 10 ** 4])
                res = mp.pslq(xs, tol=tol, maxcoeff=maxcoeff, maxsteps=2000)
                if res is None:
                    yield None; continue
                s = ex.R(ex.add(*[ex.mul(int(ci), xi) for ci, xi in zip(res, xs)]))
                js = [ex.le(ex.sq(s), ex.mul(ex.sq(tol), ex.add(*[ex.sq(xi) for xi in xs])))] + [ex.lt(ex.ab(int(ci)), maxcoeff) for ci in res]
                js.append(ex.lt(0, ex.add(*[ex.ab(int(ci)) for ci in res])))
                yield ex.allj(*js), {"key": "pslq/generic", "found": [int(v) for v in res], "p": p, "tol_bits": str(tol), "maxcoeff": maxcoeff,
                                     "what": "pslq returned a vector that is not a relation within tol*||x|| / maxcoeff"}
            elif kind < 0.88:
                if p > 120:
                    p = 80; mp.prec = p
                # identify: every returned expression must evaluate (integers read as exact numbers, functions and constants
                # from the context) to x within the tolerance
                r1 = Fr(rng.randint(2, 12)); s1 = rng.randint(1, 4); r2 = Fr(rng.randint(1, 9), rng.randint(1, 9))
                form = rng.choice(["exp-sqrt", "exp+sqrt", "sqrt", "-sqrt", "quad", "rat*pi", "pi*exp-sqrt", "exp-sqrt/pi", "log", "rat", "e^rat"])
                consts = []
                S = mp.sqrt(sf_q2m(mp, r1)) / s1
                if form == "exp-sqrt": x = mp.exp(-S)
                elif form == "exp+sqrt": x = mp.exp(S)
                elif form == "sqrt": x = S
                elif form == "-sqrt": x = -S
                elif form == "quad": x = (rng.randint(-5, 5) + mp.sqrt(sf_q2m(mp, r1))) / s1 * rng.choice([1, -1])
                elif form == "rat*pi": x = sf_q2m(mp, r2) * mp.pi; consts = ["pi"]
                elif form == "pi*exp-sqrt": x = mp.pi * mp.exp(-S); consts = ["pi"]
                elif form == "exp-sqrt/pi": x = mp.exp(-S) / mp.pi; consts = ["pi"]
                elif form == "log": x = mp.log(sf_q2m(mp, r1)) * rng.choice([1, -1]); consts = ["log(%d)" % r1.numerator]
                elif form == "rat": x = sf_q2m(mp, r2) * rng.choice([1, -1])
                else: x = mp.exp(sf_q2m(mp, r2) * rng.choice([1, -1])); consts = ["e"]
                full = rng.random() < 0.4
                res = mp.identify(x, consts, full=full)
                if not res:
                    yield None; continue
                tol = mp.eps ** 0.7
                js = []
                for expr in (res if full else [res]):
                    v = eval_identified(mp, expr)
                    js.append(ex.le(ex.ab(ex.sub(v, x)), ex.mul(tol, ex.mx(ex.ab(x), 1), 256)))
                yield ex.allj(*js), {"key": "identify/" + form, "x": mp.nstr(x, 20), "constants": consts, "found": res, "p": p,
                                     "what": "an expression returned by identify does not evaluate to x within 256 * eps^0.7"}
            else:
                # findpoly on an algebraic number: root of a planted integer polynomial
                deg = rng.randint(1, 3)
                r = rng.choice([mp.sqrt(2), mp.sqrt(3) + 1, mp.cbrt(5), (1 + mp.sqrt(5)) / 2, mp.mpf(7) / 3, mp.sqrt(2) + mp.sqrt(3)])
                n = rng.randint(2, 5)
                tol = mp.mpf(2) ** (-(p // 2))
                res = mp.findpoly(r, n, maxcoeff=1000, tol=tol)
                if res is None:
                    yield None; continue
                coeffs = [int(v) for v in res]            # highest degree first
                val = ex.poly(list(reversed(coeffs)), r)
                js = [ex.le(ex.ab(val), ex.mul(tol, ex.mx(*[ex.ab(ex.mul(cf, ex.powi(r, len(coeffs) - 1 - t))) for t, cf in enumerate(coeffs)], 1), n + 1)),
                      ex.lt(0, ex.add(*[ex.ab(cf) for cf in coeffs]))]
                yield ex.allj(*js), {"key": "findpoly", "poly": coeffs, "n": n, "p": p, "what": "findpoly returned a polynomial that does not vanish at x within tolerance, or of too high degree"} if len(coeffs) <= n + 1 else \
                    ({"j": "false"}, {"key": "findpoly/degree", "poly": coeffs, "n": n, "p": p, "what": "findpoly returned a polynomial of degree above n"})
        except (ZeroDivisionError, ValueError, TypeError):
            yield None


def main():
    oblcommon.run(PROP, LEVEL, gen,
                  "planted and generic pslq instances, findpoly on algebraic numbers, identify on square roots / exponentials / logarithms / multiples of constants; distinct = (inputs, tolerance, precision)",
                  ["'precision suffices' for planted relations: <= 5 terms, one-digit coefficients, >= 53 bits, tol = 2^(-3p/4)",
                   "identify(): each returned expression is evaluated by Python with integer literals read as exact numbers and sqrt/exp/log/pi/e taken from the library (relational)"])


replay = oblcommon.replay
