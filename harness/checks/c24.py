"""C24 -- function evaluations terminate.

M1: LoopSkel (TLC, liveness under weak fairness): the hypsum / hypercomb retry loop and the mpf_psi0
    loop terminate structurally for every outcome of the numerics; the unguarded complex digamma
    loop does not (expected lasso, cfg/LoopSkel_cpsi.cfg) -- termination there is a numeric fact,
    which is why real executions are observed under a work budget.
M3: every documentation statement of the public functions, is executed at the documented
    scale, and the function evaluations among them also at precisions up to 4000 bits, under a DETERMINISTIC
    work budget (number of starts of the numerical kernel functions, counted by sys.monitoring);
    an overrun is re-run once with an 8x budget; the recorded exits are judged by TLC (op call_exit):
    return, or raise of a documented exception class, within the budget."""
import json, random, sys
from .. import core, tlc, enc, corpus
from . import c11

PROP = "C24"; LEVEL = "model_checking"
HARNESS_EXC = {"TypeError", "NameError", "AttributeError", "IndexError", "KeyError", "OverflowError", "AssertionError", "SyntaxError", "RecursionError",
               "UnboundLocalError", "ImportError", "ModuleNotFoundError", "Injected", "MemoryError", "StopIteration", "RuntimeError"}


def main():
    chk = core.Check(PROP, LEVEL)
    mpmath = core.use_repo()
    for cfg, expect in [("LoopSkel_hyp.cfg", None), ("LoopSkel_psi0.cfg", None), ("LoopSkel_cpsi.cfg", "temporal")]:
        res = tlc.run_model("LoopSkel", cfg, workers=4)
        chk.add_model(res, "LoopSkel/" + cfg)
        if expect:
            if not res["violated"]:
                chk.machinery(cfg + ": the expected non-termination lasso was not found (vacuity guard)")
        elif not res["ok"]:
            if res["violated"]:
                chk.violation("model/LoopSkel/" + str(res["violated"]), "loop skeleton %s does not terminate structurally" % cfg, {"cfg": cfg})
            else:
                chk.machinery(cfg + ": TLC failed\n" + res["output"][-1500:])
    rng = random.Random(chk.seed * 6007 + 24)
    sw = c11.Sweep(mpmath, rng.randint(0, 10 ** 9))
    B1 = chk.pick(1200000, 1500000)
    sw.inj.budget = B1
    sw.alarm_s = chk.pick(25, 40)
    sw.nvariants = 0
    blocks = c11.select_blocks(chk, mpmath, chk.pick(0.15, 0.2))
    CALCULUS = {"quad", "quadgl", "quadts", "quadosc", "quadsubdiv", "nsum", "nprod", "sumem", "sumap", "limit", "diff", "diffs", "diffs_prod", "diffs_exp", "taylor", "pade",
                "findroot", "polyroots", "odefun", "chebyfit", "fourier", "invertlaplace", "invlaptalbot", "invlapstehfest", "invlapdehoog", "pslq", "findpoly", "identify",
                "hyper2d", "appellf1", "appellf2", "appellf3", "appellf4", "richardson", "shanks", "levin", "cohen_alt", "differint", "difference", "eig", "eigh", "svd", "expm", "logm",
                "zetazero", "nzeros", "secondzeta", "bell", "stirling1", "stirling2", "eulernum", "bernfrac", "primepi", "primepi2", "list_primes", "plot", "cplot", "splot"}
    # direct calls of the loop families named in the property's anchors (asymptotic / Euler-Maclaurin / Newton loops that stop on a
    # tolerance), with seeded moderate arguments at precisions up to a few thousand bits -- the documentation examples alone do not
    # reach "small |z| at high precision", which is where an unreachable tolerance shows
    def direct_blocks():
        def num():
            m = rng.choice([0.001, 0.125, 0.5, 1, 3, 10, 47.5, 1000, 123456.75]) * rng.choice([1, -1, 1])
            return repr(m * rng.choice([1, 1.5, 0.75]))
        def cnum():
            return "mpc(%s, %s)" % (num(), num())
        def arg():
            return num() if rng.random() < 0.55 else cnum()
        fams = [lambda: "psi(%d, %s)" % (rng.randint(0, 6), arg()), lambda: "digamma(%s)" % arg(), lambda: "harmonic(%s)" % arg(),
                lambda: "zeta(%s)" % arg(), lambda: "zeta(%s, %s)" % (arg(), repr(abs(float(eval(num()))) + 0.25)), lambda: "loggamma(%s)" % arg(), lambda: "gamma(%s)" % arg(),
                lambda: "rgamma(%s)" % arg(), lambda: "expint(%d, %s)" % (rng.randint(0, 4), arg()), lambda: "e1(%s)" % arg(), lambda: "ei(%s)" % arg(),
                lambda: "erfc(%s)" % arg(), lambda: "erf(%s)" % arg(), lambda: "besselj(%s, %s)" % (num(), arg()), lambda: "besselk(%s, %s)" % (num(), arg()),
                lambda: "lambertw(%s, %d)" % (arg(), rng.randint(-2, 2)), lambda: "polylog(%d, %s)" % (rng.randint(-2, 5), arg()), lambda: "agm(%s, %s)" % (arg(), arg()),
                lambda: "airyai(%s)" % arg(), lambda: "ci(%s)" % arg(), lambda: "gammainc(%s, %s)" % (num(), arg())]
        out = []
        # a fixed grid for the polygamma family (the anchored Euler-Maclaurin loops): every order against small and moderate arguments
        grid = ["0.5", "3", "mpc(10, 0.5)", "mpc(-3.5, 0.125)", "47.5", "mpc(0.125, -2)"]
        for z in grid:
            for m in (1, 2, 3, 5):
                out.append(("direct/psi", ["psi(%d, %s)" % (m, z)]))
            out.append(("direct/digamma", ["digamma(%s)" % z]))
            out.append(("direct/harmonic", ["harmonic(%s)" % z]))
        for k in range(chk.pick(45, 120)):
            f = rng.choice(fams[:3]) if rng.random() < 0.35 else rng.choice(fams)
            src = f()
            out.append(("direct/%s" % src.split("(")[0], [src]))
        return out
    DIRECT_PRECS = chk.pick([53, 400, 1000], [53, 400, 1000, 1500])

    def exit_event(evs):
        return [e for e in evs if e["ev"] in ("return", "raise", "abandon")][-1]
    mp = mpmath.mp
    events, meta = [], {}
    overruns = []
    stuck = {}
    def record(info, exit_, exc, work):
        eid = len(events)
        events.append(enc.event(eid, "call_exit", [], info["P"], "n", enc.sym("none"), pb=0,
                                x={"exit": exit_, "exc": exc, "harness": exc in HARNESS_EXC, "work": min(work, 2 ** 30)}))
        meta[eid] = dict(info, exit=exit_, exc=exc, work=work)
    try:
        for name, stmts in blocks + direct_blocks():
            for P in (DIRECT_PRECS if name.startswith("direct/") else chk.pick([53, 400], [53, 400])):
                # the numerical-calculus routines and integer sequences are exercised at the documented scale only: at a
                # raised precision their documented examples are legitimately heavy (no verdict about termination possible)
                if P > 53 and (name in CALCULUS or any(any(cn + "(" in s for cn in CALCULUS) for s in stmts)):
                    continue
                ns = corpus.namespace(mpmath, mp)
                if name.startswith("direct/") and stuck.get(name, 0) >= 2:
                    continue                      # this family already failed to return twice: the verdict is made, do not wait for every grid point
                for i, src in enumerate(stmts):
                    cand = [src]
                    for s2 in cand:
                        try:
                            code, mode = sw._compile(s2)
                        except SyntaxError:
                            continue
                        mp.prec = P
                        info = {"block": name, "stmt": i, "src": s2, "P": P, "ctx": "mp", "inject": None}
                        sw.rec.events = []
                        sw._call(code, mode, ns, "mp", "%s#%d" % (name, i), info, None)
                        last = exit_event(sw.rec.events)
                        work = sw.inj.total
                        if sw.inj.budget_hit or last["ev"] == "abandon":
                            overruns.append((code, mode, ns, info))
                            stuck[name] = stuck.get(name, 0) + 1
                        else:
                            record(info, last["ev"], last.get("exc", ""), work)
                mp.prec = 53
        # second chance with an 8x budget for the overruns (legitimately heavy evaluations)
        sw.inj.budget = 8 * B1
        sw.alarm_s = chk.pick(120, 150)
        for code, mode, ns, info in overruns:
            mp.prec = info["P"]
            sw.rec.events = []
            sw._call(code, mode, ns, "mp", "retry", info, None)
            last = exit_event(sw.rec.events)
            if sw.inj.budget_hit:
                record(info, "budget", "", sw.inj.total)
            elif last["ev"] == "abandon" and info["block"].startswith("direct/"):
                # one evaluation of one function at a moderate argument: no return within the enlarged wall-clock limit (hundreds of
                # seconds against milliseconds on the unchanged tree) is judged like an exhausted work budget -- expensive iterations
                # at high precision accumulate kernel starts too slowly for the deterministic budget alone
                record(info, "budget", "", sw.inj.total)
            elif last["ev"] == "abandon":
                record(info, "abandon", "", sw.inj.total)
            else:
                record(info, last["ev"], last.get("exc", ""), sw.inj.total)
    finally:
        sw.close()
        mp.prec = 53
    bad = tlc.judge(events, tag=PROP, shards=8)
    for ev in events:
        m = meta[ev["id"]]
        chk.count(); chk.distinct((m["src"], m["P"]), True)
    chk.add_traces(len(events))
    for ev in events[:3]:
        chk.sample({k: meta[ev["id"]][k] for k in ("src", "P", "exit", "exc", "work")})
    chk.cov["overruns_first_budget"] = len(overruns)
    chk.cov["max_work"] = max([meta[e["id"]]["work"] for e in events] or [0])
    for i, cl in sorted(bad.items()):
        if "post" in cl:
            m = meta[i]
            kind = m["exit"] if m["exit"] in ("budget", "abandon") else "undocumented-exception/" + m["exc"]
            chk.violation("%s/%s" % (kind, m["block"]), "evaluation does not terminate within the work budget or raises an undocumented exception: %s at prec %d" % (m["src"], m["P"]),
                          {k: m[k] for k in ("block", "stmt", "src", "P", "exit", "exc", "work")})
    chk.cov["rule"] = ("documentation statements and argument variants at several precisions under a deterministic work budget (kernel function starts); "
                       "distinct = (statement, precision); every call is judged")
    chk.assumptions += ["work budget: %d kernel starts, overruns re-run with 8x; a correct implementation that needs more than that for the documented examples would be flagged" % B1,
                        "exception classes raised by the corpus statement itself (TypeError, NameError, ...) are not verdicts about mpmath"]
    chk.finish()


def replay(path):
    print(open(path).read()[:2000]); raise SystemExit(0)
