"""C27 -- sums, products, limits and extrapolation converge to the right value.

[E]: finite nsum/nprod of rational functions equal the exact rational (TLC evaluates the sum term by
term); convergent series/products/limits with rational closed forms (geometric, arithmetico-
geometric, telescoping, Wallis-type products) through nsum (every acceleration method by name, which
drives richardson / shanks / levin / cohen_alt internally), nprod and limit; a multidimensional nsum equals the iterated finite sum."""
import fractions
from .. import ex
from . import oblcommon

PROP = "C27"; LEVEL = "exploration"
Fr = fractions.Fraction


def gen(chk, mpmath, rng):
    mp = mpmath.mp
    for kf in [k for k in chk.known if k.get("status") == "known" and "rep" in k]:
        rep = kf["rep"]; mp.prec = rep["p"]
        rr = mp.mpf(rep["r"][0]) / rep["r"][1]
        got = mp.nsum(lambda k: rr ** abs(k) * (2 if k > 0 else 1), [-mp.inf, mp.inf])
        rq_ = Fr(rep["r"][0], rep["r"][1])
        exact = ex.add(ex.div(1, ex.sub(1, ex.Qf(rq_))), ex.div(ex.mul(2, ex.Qf(rq_)), ex.sub(1, ex.Qf(rq_))))
        yield ex.relabs_close(got, exact, 10, rep["p"]), {"pinned": kf["key"], "key": "series/geom-both/r+s/slow", "r": str(rq_), "p": rep["p"], "what": "pinned representative"}
        mp.prec = 53
    inf = mp.inf
    for i in range(chk.pick(220, 6000)):
        p = rng.choice([40, 53, 53, 80, 120])
        mp.prec = p
        c = rng.random()
        try:
            if c < 0.3:
                # finite sums of P(k)/Q(k)
                P = [rng.randint(-5, 5) for _ in range(rng.randint(1, 4))]
                Q = [rng.randint(1, 6)] + [rng.randint(0, 4) for _ in range(rng.randint(0, 2))]
                lo = rng.randint(0, 5); hi = lo + rng.randint(0, 40)
                f = lambda k: sum(c_ * k ** j for j, c_ in enumerate(P)) / sum(mp.mpf(c_) * k ** j for j, c_ in enumerate(Q))
                got = mp.nsum(f, [lo, hi])
                exact = ex.sumk(lo, hi, ex.div(ex.poly(P, ex.K), ex.poly(Q, ex.K)))
                yield ex.relabs_close(got, exact, 10, p), {"key": "finite/nsum", "P": P, "Q": Q, "range": [lo, hi], "p": p, "what": "finite nsum differs from the exact rational sum"}
            elif c < 0.4:
                lo = rng.randint(1, 4); hi = lo + rng.randint(0, 25)
                a = rng.randint(1, 5)
                got = mp.nprod(lambda k: (k + a) / mp.mpf(k + a + 1), [lo, hi])
                exact = ex.prodk(lo, hi, ex.div(ex.add(ex.K, a), ex.add(ex.K, a + 1)))
                yield ex.relabs_close(got, exact, 10, p), {"key": "finite/nprod", "a": a, "range": [lo, hi], "p": p, "what": "finite nprod differs from the exact rational product"}
            elif c < 0.65:
                # infinite series with rational sums
                which = rng.choice(["geom", "arithgeom", "telescope", "telescope2", "altgeom", "geom-left", "telescope-left", "geom-both"])
                r = Fr(rng.randint(1, 7), rng.choice([8, 9, 10, 16])) * rng.choice([1, -1])
                R = mp.mpf(r.numerator) / r.denominator
                meth = rng.choice(["r+s", "r+s+e", "l", "s", "r", "d"]) if which != "altgeom" else rng.choice(["r+s", "a", "l"])
                if which == "geom":
                    got = mp.nsum(lambda k: R ** k, [0, inf], method=meth); exact = ex.div(1, ex.sub(1, ex.Qf(r)))
                elif which == "arithgeom":
                    got = mp.nsum(lambda k: k * R ** k, [0, inf], method=meth); exact = ex.div(ex.Qf(r), ex.sq(ex.sub(1, ex.Qf(r))))
                elif which == "telescope":
                    got = mp.nsum(lambda k: 1 / (k * (k + 1)), [1, inf], method=meth); exact = ex.Z(1)
                elif which == "telescope2":
                    got = mp.nsum(lambda k: 1 / (k * (k + 2)), [1, inf], method=meth); exact = ex.Qf(Fr(3, 4))
                elif which == "geom-left":
                    # sum_{k <= b} R^-k ... written with a summand that is not even in k: sum_{k=-inf}^{b} (1/r)^k = r^-b / (1 - r)
                    b = rng.randint(-4, 4); meth = "r+s"
                    got = mp.nsum(lambda k: (1 / R) ** k, [-inf, b], method=meth); exact = ex.div(ex.powi(ex.Qf(r), -b), ex.sub(1, ex.Qf(r)))
                elif which == "telescope-left":
                    # sum_{k=-inf}^{-2} 1/(k (k+1)) = sum_{j>=2} 1/(j (j-1)) = 1
                    meth = "r+s"
                    got = mp.nsum(lambda k: 1 / (k * (k + 1)), [-inf, -2], method=meth); exact = ex.Z(1)
                elif which == "geom-both":
                    # sum over all integers of r^|k| * (1 + [k > 0]) : asymmetric in k; = 1/(1-r) + 2 r/(1-r)
                    meth = "r+s"; ra = abs(r); Ra = mp.mpf(ra.numerator) / ra.denominator
                    got = mp.nsum(lambda k: Ra ** abs(k) * (2 if k > 0 else 1), [-inf, inf], method=meth)
                    exact = ex.add(ex.div(1, ex.sub(1, ex.Qf(ra))), ex.div(ex.mul(2, ex.Qf(ra)), ex.sub(1, ex.Qf(ra))))
                else:
                    ra = abs(r)
                    got = mp.nsum(lambda k: (-1) ** k * (mp.mpf(ra.numerator) / ra.denominator) ** k, [0, inf], method=meth); exact = ex.div(1, ex.add(1, ex.Qf(ra)))
                if not oblcommon.fin(got) or hasattr(got, "_mpc_"):
                    yield None; continue
                # only the default / recommended strategies are held to full accuracy; others are documented as problem dependent
                if which == "geom-both":
                    r = abs(r)
                if meth == "d" and abs(r) >= Fr(7, 8):
                    yield None; continue            # direct summation is documented for rapidly convergent series only (ratio 7/8: 2e-9 off at 53 bits)
                if meth in ("r+s", "r+s+e", "a") or which in ("geom", "arithgeom", "altgeom") and meth in ("l", "s", "d"):
                    slow = "/slow" if abs(r) >= Fr(7, 8) else ""
                    yield ex.relabs_close(got, exact, 10, p), {"key": "series/%s/%s%s" % (which, meth, slow), "r": str(r), "p": p, "what": "infinite series differs from its rational closed form"}
            elif c < 0.75:
                which = rng.choice(["wallis2", "ratio"])
                if which == "wallis2":
                    got = mp.nprod(lambda k: 1 - 1 / mp.mpf(k) ** 2, [2, inf]); exact = ex.Qf(Fr(1, 2))
                else:
                    got = mp.nprod(lambda k: (k * (k + 3)) / mp.mpf((k + 1) * (k + 2)), [1, inf]); exact = ex.Qf(Fr(1, 3))
                yield ex.relabs_close(got, exact, 10, p), {"key": "product/" + which, "p": p, "what": "infinite product differs from its rational closed form"}
            elif c < 0.85:
                a = rng.randint(1, 9); b = rng.randint(1, 9)
                got = mp.limit(lambda n: (a * n + 1) / (b * n + mp.mpf(3)), inf)
                yield ex.relabs_close(got, ex.Qf(Fr(a, b)), 10, p), {"key": "limit/rational", "a": a, "b": b, "p": p, "what": "limit of a rational function differs from a/b"}
            else:
                # two-dimensional finite nsum equals the iterated sum
                m1, m2 = rng.randint(1, 8), rng.randint(1, 8)
                got = mp.nsum(lambda j, k: 1 / mp.mpf((j + 1) * (k + 2)), [0, m1], [0, m2])
                exact = ex.mul(ex.sumk(0, m1, ex.div(1, ex.add(ex.K, 1))), ex.sumk(0, m2, ex.div(1, ex.add(ex.K, 2))))
                yield ex.relabs_close(got, exact, 10, p), {"key": "finite2d/nsum", "m": [m1, m2], "p": p, "what": "2-d finite nsum differs from the iterated exact sum"}
        except (ZeroDivisionError, ValueError, TypeError, mpmath.libmp.NoConvergence):
            yield None


def main():
    oblcommon.run(PROP, LEVEL, gen,
                  "seeded finite and infinite sums/products/limits with rational closed forms over every summation method; distinct = (problem, method, precision)",
                  ["series with pi / log / e limits need the series oracle (RealFun)"])


replay = oblcommon.replay
