"""C15 -- complex interval (rectangle) operations contain every possible exact result.

M3: +, -, *, /, ** (integer exponents), abs on iv.mpc / libmp.mpci_* with rectangles touching and
    straddling the axes; sample member points (all corners, axis points, interior dyadics) are carried
    by the event and TLC checks with MpiPost that the exact result of every combination lies in the
    returned rectangle (real and imaginary parts of sums and products are multilinear in the four
    interval variables, so corners decide them; for powers and quotients the samples are a sound,
    incomplete test)."""
import json
from .. import core, tlc, gen, enc
from . import c14

PROP = "C15"; LEVEL = "exploration"


def rect(g, p):
    """finite rectangle with moderate exponents: the exact corner arithmetic (products, quotients, ninth powers) is evaluated
    with exact sums, so exponent spreads of thousands of bits would only cost time"""
    def clamp(t):
        if not t[1]:
            return t
        e = max(-50, min(50, t[2] + t[3])) - t[3]
        return (t[0], t[1], e, t[3])
    def fin_iv():
        while True:
            v = c14.interval(g, p)
            if v[0] not in (gen.FNINF,) and v[1] not in (gen.FINF,):
                a, b = clamp(v[0]), clamp(v[1])
                from fractions import Fraction as Fr
                va = Fr((-1) ** a[0] * a[1]) * Fr(2) ** a[2] if a[1] else Fr(0)
                vb = Fr((-1) ** b[0] * b[1]) * Fr(2) ** b[2] if b[1] else Fr(0)
                return (a, b) if va <= vb else (b, a)
    return (fin_iv(), fin_iv())


def cpoints(g, z, p):
    res, ims = c14.points(g, z[0], p, k=1), c14.points(g, z[1], p, k=1)
    return [(a, b) for a in res for b in ims][:9]


CENCL = ["exp", "cos", "sin", "log"]
CREL = ["gamma", "rgamma", "loggamma", "factorial", "cpow"]


def moderate_rect(g, p, maxtop, mintop=-30):
    return (c14.moderate_interval(g, p, maxtop, mintop=mintop), c14.moderate_interval(g, p, maxtop, mintop=mintop))


def cref(mp, y, q):
    """rectangle around the library's high-precision point value: each part widened by 2^(12-q) |y|"""
    d = abs(y) * mp.mpf(2) ** (12 - q)
    saved = mp.prec
    mp.prec = q + 20
    try:
        return ((y.real - d)._mpf_, (y.real + d)._mpf_), ((y.imag - d)._mpf_, (y.imag + d)._mpf_)
    finally:
        mp.prec = saved


def coutside_bucket(mpmath, f, p, out, zs, ws):
    """how far outside the returned rectangle the library's high-precision point value lies, in ulps (precision p) of
    the violated bound -- used for reporting and known-finding keys only"""
    mp = mpmath.mp
    saved = mp.prec
    mp.prec = 3 * p + 300
    worst = mp.mpf(0)
    try:
        (ra, rb), (ia, ib) = [[mp.make_mpf(tuple(q)) for q in part] for part in out]
        if ra > rb or ia > ib:
            return "lower>upper"
        for a, b in zs:
            Z = mp.mpc(mp.make_mpf(tuple(a)), mp.make_mpf(tuple(b)))
            for w in (ws or [None]):
                try:
                    y = Z ** mp.mpc(mp.make_mpf(tuple(w[0])), mp.make_mpf(tuple(w[1]))) if f == "cpow" else getattr(mp, f)(Z)
                except (ZeroDivisionError, ValueError):
                    continue
                y = mp.mpc(y)
                if not (mp.isfinite(y.real) and mp.isfinite(y.imag)):
                    continue
                for end, d, v in ((ra, ra - y.real, y.real), (rb, y.real - rb, y.real), (ia, ia - y.imag, y.imag), (ib, y.imag - ib, y.imag)):
                    if mp.isfinite(end) and d > 0:
                        ulp = mp.mpf(2) ** (mp.mag(end) - p) if end != 0 else mp.mpf(2) ** (mp.mag(v) - p)
                        worst = max(worst, d / ulp)
        if worst == 0:
            return "not-reproduced-by-library-reference"
        for name, lim in (("<2^-10ulp", mp.mpf(2) ** -10), ("<2^-3ulp", mp.mpf(2) ** -3), ("<=1ulp", 1), ("<=2ulp", 2)):
            if worst <= lim:
                return name
        return ">2ulp"
    finally:
        mp.prec = saved


def cfun_event(mpmath, g, eid, f, lvl, p, z, w, mayraise):
    """one complex interval function call -> civfun (spec enclosures) or civrel (relational) event"""
    iv, mp, lm = mpmath.iv, mpmath.mp, mpmath.libmp
    iv.prec = p
    try:
        Z = iv.make_mpc(z)
        if f == "cpow":
            out = lm.mpci_pow(z, w, p) if lvl == "libmp" else (Z ** iv.make_mpc(w))
        elif lvl == "libmp":
            out = getattr(lm, "mpci_" + f)(z, p)
        else:
            out = getattr(iv, f)(Z)
        if hasattr(out, "_mpci_"):
            out = out._mpci_
        elif hasattr(out, "_mpi_"):
            out = (out._mpi_, (gen.FZERO, gen.FZERO))
    except (ZeroDivisionError, ValueError, NotImplementedError, lm.ComplexResult) as e:
        out = e
    finally:
        iv.prec = 53
    zs = cpoints(g, z, p)
    ws = cpoints(g, w, p)[:2] if w else []
    try:
        o = enc.exc(out) if isinstance(out, BaseException) else enc.cv(out)
        if f in CENCL:
            zs = list(dict.fromkeys(zs))[:6]
            if f == "log":
                zs = [(a, b) for a, b in zs if not (b == gen.FZERO and (a == gen.FZERO or a[0] == 1))]     # off the cut and the origin
            if not zs and not isinstance(out, BaseException):
                return None
            x = {"f": f, "w": p + 90, "zs": [{"re": enc.f(a), "im": enc.f(b)} for a, b in zs], "mayraise": mayraise}
            event = enc.event(eid, "civfun", [], p, "n", o, pb=0, x=x)
        else:
            q = 3 * p + 200
            refs = []
            mp.prec = q
            try:
                for a, b in zs:
                    Zp = mp.mpc(mp.make_mpf(a), mp.make_mpf(b))
                    for wp_ in (ws or [None]):
                        try:
                            if f == "cpow":
                                if Zp == 0 or (Zp.imag == 0 and Zp.real < 0):
                                    continue
                                y = Zp ** mp.mpc(mp.make_mpf(wp_[0]), mp.make_mpf(wp_[1]))
                            else:
                                if Zp.imag == 0 and Zp.real <= 0 and (f == "loggamma" or Zp.real == mp.floor(Zp.real)):
                                    continue                           # poles / the cut of loggamma
                                if f == "factorial" and Zp.imag == 0 and Zp.real < 0 and Zp.real == mp.floor(Zp.real):
                                    continue
                                y = getattr(mp, f)(Zp)
                        except (ZeroDivisionError, ValueError):
                            continue
                        y = mp.mpc(y)
                        if not (mp.isfinite(y.real) and mp.isfinite(y.imag)) or y == 0:
                            continue
                        refs.append(cref(mp, y, q))
            finally:
                mp.prec = 53
            if not refs and not isinstance(out, BaseException):
                return None
            x = {"f": f, "refs": [{"re": enc.v(rr), "im": enc.v(ii)} for rr, ii in refs[:8]], "mayraise": mayraise}
            event = enc.event(eid, "civrel", [], p, "n", o, pb=0, x=x)
        m = {"f": f, "lvl": lvl, "p": p, "n": 0, "fun": True, "z": [[list(map(int, q_)) for q_ in part] for part in z],
             "w": [[list(map(int, q_)) for q_ in part] for part in w] if w else [],
             "zs": [[list(map(int, a)), list(map(int, b))] for a, b in zs], "ws": [[list(map(int, a)), list(map(int, b))] for a, b in ws],
             "out": [[list(map(int, q_)) for q_ in part] for part in out] if not isinstance(out, BaseException) else None}
        return event, m
    except enc.EncodeRange:
        return None


def function_events(chk, mpmath, g, start, n=None):
    r = g.r
    events, meta = [], {}
    for k in range(n or chk.pick(200, 2500)):
        p = r.choice([10, 24, 53, 53, 100, r.randint(9, 120)])
        f = r.choice(CENCL + CENCL + CREL)
        w = None
        mayraise = False
        if f in ("exp", "cos", "sin"):
            z = moderate_rect(g, p, r.choice([2, 5, 7]))
        elif f == "log":
            z = moderate_rect(g, p, 40, mintop=-40)
            mayraise = True                                            # a rectangle containing the origin may raise
        elif f == "cpow":
            z = moderate_rect(g, p, 4, mintop=-6); w = moderate_rect(g, p, 2, mintop=-6)
            mayraise = True
        else:
            z = moderate_rect(g, p, r.choice([2, 4, 6]), mintop=-8)
            if r.random() < 0.4:
                # around the minimum of gamma on the positive axis (1.4616...): the real range straddles it, small imaginary parts
                lo = gen.mk(r.randint(2 ** 9, 3 * 2 ** 9 - 40), -10); hi = gen.mk(r.randint(3 * 2 ** 9 - 20, 3 * 2 ** 10), -10)
                y1, y2 = sorted([r.randint(-1100, 1100), r.randint(-1100, 1100)])
                z = ((lo, hi), (gen.mk(y1, -10), gen.mk(y2, -10)))
            mayraise = True                                            # rectangles containing poles
        lvl = r.choice(["libmp", "ctx"])
        made = cfun_event(mpmath, g, start + len(events), f, lvl, p, z, w, mayraise)
        if made is not None:
            events.append(made[0]); meta[made[0]["id"]] = made[1]
    return events, meta


def main():
    chk = core.Check(PROP, LEVEL)
    mpmath = core.use_repo()
    lm, iv = mpmath.libmp, mpmath.iv
    g = gen.G(chk.seed * 1000003 + 15)
    r = g.r
    events, meta = [], {}
    for i in range(chk.pick(500, 8000)):
        p = r.choice([r.randint(2, 8), 10, 24, 53, 100])
        f = r.choice(["add", "sub", "mul", "mul", "div", "pow", "abs"])
        z, w = rect(g, p), rect(g, p)
        nn = 0; mayraise = False
        try:
            iv.prec = p
            Z, W = iv.make_mpc(z), iv.make_mpc(w)
            lvl = r.choice(["libmp", "oper"])
            if f == "add": out = lm.mpci_add(z, w, p) if lvl == "libmp" else (Z + W)._mpci_
            elif f == "sub": out = lm.mpci_sub(z, w, p) if lvl == "libmp" else (Z - W)._mpci_
            elif f == "mul": out = lm.mpci_mul(z, w, p) if lvl == "libmp" else (Z * W)._mpci_
            elif f == "div": out = lm.mpci_div(z, w, p) if lvl == "libmp" else (Z / W)._mpci_
            elif f == "abs":
                o1 = lm.mpci_abs(z, p) if lvl == "libmp" else abs(Z)._mpi_
                out = (o1, (gen.FZERO, gen.FZERO))
            else:
                nn = r.choice([0, 1, 2, 3, 4, 5, r.randint(2, 9)])
                out = (Z ** nn)._mpci_ if hasattr(Z ** nn, "_mpci_") else ((Z ** nn)._mpi_, (gen.FZERO, gen.FZERO))
        except (ZeroDivisionError, ValueError, NotImplementedError) as e:
            out = e; mayraise = f in ("div",)
        finally:
            iv.prec = 53
        zs = cpoints(g, z, p)
        ws = cpoints(g, w, p) if f in ("add", "sub", "mul", "div") else []
        try:
            o = enc.exc(out) if isinstance(out, BaseException) else enc.cv(out)
            x = {"f": f, "xs": [{"re": enc.f(a), "im": enc.f(b)} for a, b in zs],
                 "ys": [{"re": enc.f(a), "im": enc.f(b)} for a, b in ws], "n": nn, "mayraise": mayraise}
            eid = len(events)
            events.append(enc.event(eid, "civ", [], p, "n", o, pb=0, x=x))
            meta[eid] = {"f": f, "lvl": lvl, "p": p, "n": nn, "z": [[list(map(int, q)) for q in part] for part in z],
                         "w": [[list(map(int, q)) for q in part] for part in w]}
        except enc.EncodeRange:
            continue
    events3, meta3 = function_events(chk, mpmath, g, len(events))
    events += events3; meta.update(meta3)
    pinned = {}
    for k in chk.known:
        if k.get("status") == "known" and "rep" in k:
            rep = k["rep"]
            tt = lambda part: tuple(tuple(q) for q in part)
            made = cfun_event(mpmath, g, len(events), rep["f"], rep["lvl"], rep["p"], tuple(tt(part) for part in rep["z"]),
                              tuple(tt(part) for part in rep["w"]) if rep.get("w") else None, False)
            if made is None:
                chk.machinery("pinned representative of %s could not be executed" % k["key"])
            events.append(made[0]); meta[made[0]["id"]] = dict(made[1], pinned=True); pinned[made[0]["id"]] = k
    bad = tlc.judge(events, tag=PROP)
    for eid, k in pinned.items():
        chk.known_line(k, "post" in bad.get(eid, []))
    und = sum(1 for cl in bad.values() if "undecided" in cl)
    chk.notes.append("%d function events (spec enclosures: %s; relational: %s); %d events had a member point the enclosure could not place (undecided, not judged)"
                     % (len(events3), ", ".join(CENCL), ", ".join(CREL), und))
    for ev in events:
        chk.count(); chk.distinct(json.dumps(meta[ev["id"]], sort_keys=True), ev["o"]["k"] != "x")
    chk.add_traces(len(events))
    for ev in events[:3]:
        chk.sample(c14.core_abbrev(meta[ev["id"]]))
    byid = {ev["id"]: ev for ev in events}
    for i, clauses in sorted(bad.items()):
        if "post" in clauses:
            m = meta[i]
            if m.get("pinned"):
                continue
            if m.get("fun"):
                bucket = "raises" if m["out"] is None else coutside_bucket(mpmath, m["f"], m["p"], m["out"], m["zs"], m["ws"])
                mm = {k: v for k, v in m.items() if k not in ("zs", "ws", "fun", "pinned")}
                chk.violation("%s/%s/contain/%s" % (m["f"], m["lvl"], bucket),
                              "complex interval function result misses the value at a member point (outside by %s): %s" % (bucket, json.dumps(c14.core_abbrev(mm))[:300]), byid[i])
                continue
            chk.violation("%s/%s/contain" % (m["f"], m["lvl"]), "complex interval result misses an exact point result: %s" % json.dumps(c14.core_abbrev(m))[:300], byid[i])
    chk.cov["rule"] = "seeded rectangles with finite endpoints; sample points = all corner combinations + axis/interior points; distinct = (op, level, rectangles, precision)"
    chk.assumptions += ["multilinearity: real/imaginary parts of +,-,* attain their extremes at corners; powers and quotients are judged at sample points only"]
    chk.finish()


def replay(path):
    rec = json.load(open(path))
    bad = tlc.judge([rec["replay"]], tag=PROP)
    print("recorded event re-judged:", bad)
    raise SystemExit(1 if bad else 0)
