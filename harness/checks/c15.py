"""C15 -- complex interval (rectangle) operations contain every possible exact result.

M3: +, -, *, /, ** (integer exponents), abs on iv.mpc / libmp.mpci_* with rectangles touching and
    straddling the axes; sample member points (all corners, axis points, interior dyadics) are carried
    by the event and TLC checks with MpiPost that the exact result of every combination lies in the
    returned rectangle (real and imaginary parts of sums and products are multilinear in the four
    interval variables, so corners decide them; for powers and quotients the samples are a sound,
    incomplete test)."""
import json
from .. import core, tlc, gen, enc
from . import c14

PROP = "C15"; LEVEL = "exploration"


def rect(g, p):
    """finite rectangle with moderate exponents: the exact corner arithmetic (products, quotients, ninth powers) is evaluated
    with exact sums, so exponent spreads of thousands of bits would only cost time"""
    def clamp(t):
        if not t[1]:
            return t
        e = max(-50, min(50, t[2] + t[3])) - t[3]
        return (t[0], t[1], e, t[3])
    def fin_iv():
        while True:
            v = c14.interval(g, p)
            if v[0] not in (gen.FNINF,) and v[1] not in (gen.FINF,):
                a, b = clamp(v[0]), clamp(v[1])
                from fractions import Fraction as Fr
                va = Fr((-1) ** a[0] * a[1]) * Fr(2) ** a[2] if a[1] else Fr(0)
                vb = Fr((-1) ** b[0] * b[1]) * Fr(2) ** b[2] if b[1] else Fr(0)
                return (a, b) if va <= vb else (b, a)
    return (fin_iv(), fin_iv())


def cpoints(g, z, p):
    res, ims = c14.points(g, z[0], p, k=1), c14.points(g, z[1], p, k=1)
    return [(a, b) for a in res for b in ims][:9]


def main():
    chk = core.Check(PROP, LEVEL)
    mpmath = core.use_repo()
    lm, iv = mpmath.libmp, mpmath.iv
    g = gen.G(chk.seed * 1000003 + 15)
    r = g.r
    events, meta = [], {}
    for i in range(chk.pick(500, 40000)):
        p = r.choice([r.randint(2, 8), 10, 24, 53, 100])
        f = r.choice(["add", "sub", "mul", "mul", "div", "pow", "abs"])
        z, w = rect(g, p), rect(g, p)
        nn = 0; mayraise = False
        try:
            iv.prec = p
            Z, W = iv.make_mpc(z), iv.make_mpc(w)
            lvl = r.choice(["libmp", "oper"])
            if f == "add": out = lm.mpci_add(z, w, p) if lvl == "libmp" else (Z + W)._mpci_
            elif f == "sub": out = lm.mpci_sub(z, w, p) if lvl == "libmp" else (Z - W)._mpci_
            elif f == "mul": out = lm.mpci_mul(z, w, p) if lvl == "libmp" else (Z * W)._mpci_
            elif f == "div": out = lm.mpci_div(z, w, p) if lvl == "libmp" else (Z / W)._mpci_
            elif f == "abs":
                o1 = lm.mpci_abs(z, p) if lvl == "libmp" else abs(Z)._mpi_
                out = (o1, (gen.FZERO, gen.FZERO))
            else:
                nn = r.choice([0, 1, 2, 3, 4, 5, r.randint(2, 9)])
                out = (Z ** nn)._mpci_ if hasattr(Z ** nn, "_mpci_") else ((Z ** nn)._mpi_, (gen.FZERO, gen.FZERO))
        except (ZeroDivisionError, ValueError, NotImplementedError) as e:
            out = e; mayraise = f in ("div",)
        finally:
            iv.prec = 53
        zs = cpoints(g, z, p)
        ws = cpoints(g, w, p) if f in ("add", "sub", "mul", "div") else []
        try:
            o = enc.exc(out) if isinstance(out, BaseException) else enc.cv(out)
            x = {"f": f, "xs": [{"re": enc.f(a), "im": enc.f(b)} for a, b in zs],
                 "ys": [{"re": enc.f(a), "im": enc.f(b)} for a, b in ws], "n": nn, "mayraise": mayraise}
            eid = len(events)
            events.append(enc.event(eid, "civ", [], p, "n", o, pb=0, x=x))
            meta[eid] = {"f": f, "lvl": lvl, "p": p, "n": nn, "z": [[list(map(int, q)) for q in part] for part in z],
                         "w": [[list(map(int, q)) for q in part] for part in w]}
        except enc.EncodeRange:
            continue
    bad = tlc.judge(events, tag=PROP)
    for ev in events:
        chk.count(); chk.distinct(json.dumps(meta[ev["id"]], sort_keys=True), ev["o"]["k"] != "x")
    chk.add_traces(len(events))
    for ev in events[:3]:
        chk.sample(c14.core_abbrev(meta[ev["id"]]))
    byid = {ev["id"]: ev for ev in events}
    for i, clauses in sorted(bad.items()):
        if "post" in clauses:
            m = meta[i]
            chk.violation("%s/%s/contain" % (m["f"], m["lvl"]), "complex interval result misses an exact point result: %s" % json.dumps(c14.core_abbrev(m))[:300], byid[i])
    chk.cov["rule"] = "seeded rectangles with finite endpoints; sample points = all corner combinations + axis/interior points; distinct = (op, level, rectangles, precision)"
    chk.assumptions += ["multilinearity: real/imaginary parts of +,-,* attain their extremes at corners; powers and quotients are judged at sample points only"]
    chk.finish()


def replay(path):
    rec = json.load(open(path))
    bad = tlc.judge([rec["replay"]], tag=PROP)
    print("recorded event re-judged:", bad)
    raise SystemExit(1 if bad else 0)
