"""C06 -- M3: recorded calls judged by TLC against MpfPost (spec/MpfPost.tla) on limb integers."""
from .. import machine, core, gen, cases, arith
from . import common

PROP = "C06"; LEVEL = "model_checking"


def main():
    chk = core.Check(PROP, LEVEL)
    mp = core.use_repo()
    runner = cases.Runner(mp)
    common.run_models(chk, MODELS)
    machine.run(chk, mp)
    machine.run_unary(chk, mp, [("MpfMachine", "MpfMachine_roundint_%s.cfg" % chk.pick("quick", "thorough"), "exact", True)])
    g = gen.G(chk.seed * 1000003 + int(PROP[1:]))
    cs = arith.GROUPS[PROP](g, chk.pick(2500, 80000))
    common.judge_cases(chk, cs, runner, "post", "integer-part / modulo definition violated")
    chk.cov["rule"] = RULE
    chk.assumptions += ["TLC evaluator and CommunityModules Json", "ZLimb (model-checked against native ints in ZLimbCheck)",
                        "exponents |e| < 2^30 (larger ones are dropped by the encoder)"]
    chk.finish()


def replay(path):
    common.replay(PROP, LEVEL, path, "post")


MODELS = []
RULE = ("seeded biased generator (harness/arith.py group for this property) through libmp / operator / f-function entry "
        "levels; distinct = distinct (op, level, args, prec, mode); non-trivial = finite nonzero operands")
