"""C04 -- complex arithmetic correctly rounded per component.

M3: z+w, z-w, z*w, z*x, z+x, fadd/fsub/fmul with complex arguments (all modes), z**n with exact result
    (n >= 0), division / reciprocal / negative powers (modulus bound), mpc equality -- recorded through
    libmp functions, mpc operators and f-functions and judged by TLC against MpcPost on limbs."""
import json, random
from .. import core, tlc, gen, enc

PROP = "C04"; LEVEL = "exploration"


def cval(g, p, wide=True):
    re = g.mpf(p, special=0.0)
    im = g.mpf(p, special=0.0)
    r = g.r
    if r.random() < 0.15:
        re = gen.FZERO
    if r.random() < 0.15:
        im = gen.FZERO
    if r.random() < 0.5:
        # keep the two parts within a moderate exponent distance (products then stay materialisable)
        if re[1] and im[1]:
            im = (im[0], im[1], re[2] + r.randint(-p - 30, p + 30), im[3])
    return (re, im)


def small_exp(z):
    return all(abs(t[2]) < 20000 for t in z)


def main():
    chk = core.Check(PROP, LEVEL)
    mpmath = core.use_repo()
    lm, mp = mpmath.libmp, mpmath.mp
    g = gen.G(chk.seed * 1000003 + 4)
    r = g.r
    n = chk.pick(2500, 80000)
    events, meta = [], {}
    def mk(z):
        return mp.make_mpc(z)
    for i in range(n):
        p = g.prec(); rnd = g.mode()
        z, w = cval(g, p), cval(g, p)
        if not (small_exp(z) and small_exp(w)):
            continue
        c = r.random()
        try:
            if c < 0.45:
                op = r.choice(["cadd", "csub", "cmul"])
                lvl = r.choice(["libmp", "oper", "ffun"])
                if lvl == "libmp":
                    out = {"cadd": lm.mpc_add, "csub": lm.mpc_sub, "cmul": lm.mpc_mul}[op](z, w, p, rnd)
                elif lvl == "oper":
                    rnd = "n"; mp.prec = p
                    a, b = mk(z), mk(w)
                    out = {"cadd": a + b, "csub": a - b, "cmul": a * b}[op]._mpc_
                else:
                    fn = {"cadd": mp.fadd, "csub": mp.fsub, "cmul": mp.fmul}[op]
                    out = fn(mk(z), mk(w), prec=p, rounding=rnd)
                    out = out._mpc_ if hasattr(out, "_mpc_") else (out._mpf_, gen.FZERO)
                args = [enc.c(z), enc.c(w)]
            elif c < 0.65:
                # complex with a real operand: z + x, z * x, x + z, z - x
                x = g.mpf(p, special=0.0)
                if abs(x[2]) > 20000:
                    continue
                op = r.choice(["cadd", "cmul", "csub"])
                lvl = r.choice(["libmp", "oper", "operint"])
                if lvl == "libmp":
                    out = {"cadd": lm.mpc_add_mpf, "csub": lm.mpc_sub_mpf, "cmul": lm.mpc_mul_mpf}[op](z, x, p, rnd)
                    args = [enc.c(z), enc.f(x)]
                elif lvl == "oper":
                    rnd = "n"; mp.prec = p
                    a, b = mk(z), mp.make_mpf(x)
                    if r.random() < 0.5:
                        out = {"cadd": lambda: a + b, "csub": lambda: a - b, "cmul": lambda: a * b}[op]()._mpc_
                        args = [enc.c(z), enc.f(x)]
                    else:
                        out = {"cadd": lambda: b + a, "csub": lambda: b - a, "cmul": lambda: b * a}[op]()._mpc_
                        args = [enc.f(x), enc.c(z)]
                else:
                    rnd = "n"; mp.prec = p
                    k = r.randint(-1000, 1000)
                    a = mk(z)
                    out = {"cadd": lambda: a + k, "csub": lambda: a - k, "cmul": lambda: a * k}[op]()._mpc_
                    args = [enc.c(z), enc.z(k)]
            elif c < 0.8:
                op = "cpow"
                nn = r.choice([0, 1, 2, 3, 4, 5, 7, 10, r.randint(2, 40)])
                zz = (gen.mk(g.mant(r.randint(1, 30), p) * r.choice([1, -1]), r.randint(-20, 20)),
                      gen.mk(g.mant(r.randint(1, 30), p) * r.choice([1, -1]), r.randint(-20, 20)))
                if r.random() < 0.3:
                    nn = -r.randint(1, 12)
                z = zz
                lvl = r.choice(["libmp", "oper"])
                if lvl == "libmp":
                    out = lm.mpc_pow_int(z, nn, p, rnd)
                else:
                    rnd = "n"; mp.prec = p
                    out = (mk(z) ** nn)
                    out = out._mpc_ if hasattr(out, "_mpc_") else (out._mpf_, gen.FZERO)
                args = [enc.c(z), enc.z(nn)]
            elif c < 0.93:
                op = "cdiv"
                if not all(abs(t[2]) < 400 for t in z + w):
                    continue                   # the quotient bound is evaluated with exact sums: keep exponent gaps materialisable
                lvl = r.choice(["libmp", "oper", "recip"])
                if w[0] == gen.FZERO and w[1] == gen.FZERO:
                    continue
                if lvl == "libmp":
                    out = lm.mpc_div(z, w, p, rnd)
                elif lvl == "oper":
                    rnd = "n"; mp.prec = p
                    out = (mk(z) / mk(w))._mpc_
                else:
                    z = (gen.mk(1, 0), gen.FZERO)
                    out = lm.mpc_reciprocal(w, p, rnd)
                args = [enc.c(z), enc.c(w)]
            else:
                op = "ceq"; lvl = "oper"
                a = mk(z)
                t = r.random()
                if t < 0.3:
                    other, oa = mk(z), enc.c(z)
                elif t < 0.5:
                    other, oa = mk(w), enc.c(w)
                elif t < 0.7 and z[1] == gen.FZERO:
                    other, oa = mp.make_mpf(z[0]), enc.f(z[0])
                else:
                    cz = complex(r.choice([0.5, 1.0, -2.25, 0.0]), r.choice([0.0, 1.5, -3.0]))
                    a = mp.mpc(cz) if r.random() < 0.6 else a
                    z = a._mpc_
                    other, oa = cz, {"k": "c", "re": enc.d(cz.real), "im": enc.d(cz.imag)}
                out = (a == other)
                args = [enc.c(z), oa]
        except ZeroDivisionError as e:
            out = e
        finally:
            mp.prec = 53
        eid = len(events)
        try:
            if isinstance(out, bool):
                o = enc.b(out)
            elif isinstance(out, BaseException):
                o = enc.exc(out)
            else:
                o = enc.c(out)
            events.append(enc.event(eid, op, args, p, rnd, o, pb=p if op != "ceq" else 0))
            meta[eid] = {"op": op, "lvl": lvl, "p": p, "rnd": rnd, "z": [list(map(int, t)) for t in z]}
        except enc.EncodeRange:
            continue
    # pinned representatives of the known findings (re-executed on every run)
    pinned = {}
    for k in chk.known:
        if k.get("status") == "known" and "rep" in k:
            rep = k["rep"]
            z = tuple(tuple(t) for t in rep["z"]); x = tuple(rep["x"])
            out = getattr(lm, rep["fn"])(z, x, rep["p"], rep["rnd"])
            eid = len(events)
            events.append(enc.event(eid, rep["op"], [enc.c(z), enc.f(x)], rep["p"], rep["rnd"], enc.c(out), pb=rep["p"]))
            meta[eid] = {"op": rep["op"], "lvl": "pinned", "p": rep["p"], "rnd": rep["rnd"], "z": rep["z"]}
            pinned[eid] = k
    bad = tlc.judge(events, tag=PROP)
    for eid, k in pinned.items():
        chk.known_line(k, "post" in bad.get(eid, []))
        bad.pop(eid, None)
    for ev in events:
        chk.count(); chk.distinct(json.dumps(ev["a"]) + ev["op"] + ev["r"] + str(ev["p"]), True)
    chk.add_traces(len(events))
    for ev in events[:3]:
        chk.sample(meta[ev["id"]])
    byid = {ev["id"]: ev for ev in events}
    for i, clauses in sorted(bad.items()):
        m = meta[i]
        for cl in clauses:
            if cl == "post":
                sig = ""
                ev = byid[i]
                if m["op"] in ("cadd", "csub") and (ev["a"][1]["k"] in ("f", "z") or ev["a"][0]["k"] in ("f", "z")):
                    zc = ev["a"][0] if ev["a"][0]["k"] == "c" else ev["a"][1]
                    if ev["o"]["k"] == "c" and zc["im"]["bc"] > m["p"] and ev["o"]["im"]["m"] == zc["im"]["m"]:
                        sig = "/real-operand:imag-returned-unrounded"
                chk.violation("%s/%s/%s%s" % (m["op"], m["lvl"], cl, sig), "complex arithmetic clause %s fails: %s" % (cl, json.dumps(m)[:240]), byid[i])
    chk.cov["rule"] = ("seeded complex operands (finite parts, exponent distance bounded) through libmp / operator / f-function levels; "
                       "distinct = (op, args, prec, mode)")
    chk.finish()


def replay(path):
    rec = json.load(open(path))
    ev = rec["replay"]
    print("recorded event re-judged (the outcome is the recorded one):")
    bad = tlc.judge([ev], tag=PROP)
    print(bad)
    raise SystemExit(1 if bad else 0)
