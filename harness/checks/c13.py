"""C13 -- exact cases and special values of elementary functions are exact.

[E]: exp(0)=1, log(1)=0, sin(0)=0, cos(0)=1, atan(0)=0; sqrt / cbrt / root(x**n, n) of constructed
perfect powers (mantissas to 600 bits) return the exact root; sinpi / cospi at integers and
half-integers of any size are exactly -1, 0, 1; powm1(x, y) = 0 exactly when x**y = 1; tan, cot,
sec, csc return finite values at every finite nonzero dyadic argument, in particular at the p-bit
roundings of k*pi/2; the inf / nan table (exp(-inf)=0, log(0)=-inf, atan(+-inf)=+-pi/2 within an
ulp of the library's own pi, ...).  Equalities are decided exactly by TLC on the raw tuples."""
from .. import ex, gen
from . import oblcommon

PROP = "C13"; LEVEL = "exploration"


def gen_(chk, mpmath, rng):
    mp = mpmath.mp
    g = gen.G(rng.randint(0, 10 ** 9))
    for i in range(chk.pick(1200, 30000)):
        p = rng.choice([10, 24, 53, 53, 100, 200, rng.randint(10, 600)])
        mp.prec = p
        c = rng.random()
        try:
            if c < 0.1:
                f, x, want = rng.choice([("exp", 0, 1), ("log", 1, 0), ("sin", 0, 0), ("cos", 0, 1), ("atan", 0, 0), ("sinh", 0, 0), ("cosh", 0, 1), ("tan", 0, 0),
                                          ("asin", 0, 0), ("expm1", 0, 0), ("log1p", 0, 0), ("sqrt", 0, 0), ("sqrt", 1, 1), ("cbrt", 1, 1), ("tanh", 0, 0), ("asinh", 0, 0), ("atanh", 0, 0)])
                got = getattr(mp, f)(mp.mpf(x))
                yield ex.eq(got, want), {"key": "exact/" + f, "x": x, "p": p, "what": "%s(%d) is not exactly %d" % (f, x, want)}
            elif c < 0.4:
                # perfect powers: the root fits in p bits, so it must be returned exactly
                n = rng.choice([2, 2, 3, 3, 4, 5, 5, 7, 7, 10, 13])
                hi = max(1, min(p, 600 // n))
                rb = rng.randint(1, hi) if rng.random() < 0.4 else rng.randint(min(hi, p // n + 1), hi)     # mostly: the power is wider than p bits
                r = gen.mk(g.mant(rb, p), rng.choice([rng.randint(-40, 40), -rb - rng.randint(0, 40), -rb - rng.randint(0, 40), rng.randint(-3000, 3000)]))
                mp.prec = 10 * 700
                X = mp.make_mpf(r) ** n                    # exact: enough precision for the power
                mp.prec = p
                if n == 2 and rng.random() < 0.7:
                    got = mp.sqrt(X); f = "sqrt"
                elif n == 3 and rng.random() < 0.7:
                    got = mp.cbrt(X); f = "cbrt"
                else:
                    got = mp.root(X, n); f = "root"
                yield ex.eq(got, ex.Fm(r)), {"key": "perfect-power/" + f, "root": list(map(int, r)), "n": n, "p": p, "what": "%s of an exact %d-th power does not return the exact root" % (f, n)}
            elif c < 0.6:
                # sinpi / cospi at integers and half-integers of any size
                k = rng.choice([rng.randint(-10, 10), rng.randint(-10 ** 6, 10 ** 6), rng.getrandbits(rng.randint(20, 200)) * rng.choice([1, -1])])
                half = rng.random() < 0.5
                mp.prec = 400                              # the argument must be exact; evaluate at p afterwards
                x = mp.mpf(2 * k + 1) / 2 if half else mp.mpf(k)
                mp.prec = p
                f = rng.choice(["sinpi", "cospi"])
                got = getattr(mp, f)(x)
                if f == "sinpi":
                    want = ((-1) ** (k % 2)) if half else 0
                else:
                    want = 0 if half else (-1) ** (k % 2)
                yield ex.eq(got, want), {"key": "pi-multiples/" + f, "k": str(k), "half": half, "p": p, "what": "%s at an integer / half-integer is not exactly -1, 0 or 1" % f}
            elif c < 0.7:
                # powm1(x, y) = 0 exactly when x**y = 1
                case = rng.choice(["y0", "x1", "m1even"])
                def modest():
                    t_ = g.mpf(p, special=0.0)
                    return mp.make_mpf((t_[0], t_[1], max(-200, min(200, t_[2])), t_[3])) if t_[1] else mp.mpf(3)
                if case == "y0":
                    x = modest(); y = mp.mpf(0)
                elif case == "x1":
                    x = mp.mpf(1); y = modest()
                else:
                    x = mp.mpf(-1); y = mp.mpf(2 * rng.randint(-50, 50))
                if x == 0:
                    continue
                got = mp.powm1(x, y)
                if hasattr(got, "_mpc_"):
                    yield ex.allj(ex.eq(got.real, 0), ex.eq(got.imag, 0)), {"key": "powm1/" + case, "p": p, "what": "powm1(x, y) is not exactly 0 although x**y = 1"}
                else:
                    yield ex.eq(got, 0), {"key": "powm1/" + case, "p": p, "what": "powm1(x, y) is not exactly 0 although x**y = 1"}
            elif c < 0.9:
                # tan / cot / sec / csc finite at every finite nonzero dyadic: in particular next to k*pi/2
                k = rng.randint(-40, 40) or 1
                mp.prec = p + 50
                t = k * mp.pi / 2
                mp.prec = p
                x = +t                                     # p-bit rounding of k*pi/2
                if rng.random() < 0.3:
                    t_ = g.mpf(p, special=0.0)
                    if t_[1] == 0: continue
                    x = mp.make_mpf((t_[0], t_[1], max(-300, min(300, t_[2])) - (t_[3] if abs(t_[2]) > 300 else 0), t_[3]))
                f = rng.choice(["tan", "cot", "sec", "csc"])
                try:
                    got = getattr(mp, f)(x)
                    finite = oblcommon.fin(got)
                except ZeroDivisionError:
                    finite = False
                yield ({"j": "true"} if finite else {"j": "false"}), {"key": "finite/" + f, "x": str(x), "k": k, "p": p, "what": "%s raised or returned a non-finite value at a finite nonzero dyadic argument" % f}
            else:
                name, arg, want = rng.choice([("exp", "ninf", 0), ("exp", "inf", "inf"), ("log", "zero", "ninf"), ("log", "inf", "inf"), ("sqrt", "inf", "inf"),
                                              ("atan", "inf", "pi/2"), ("atan", "ninf", "-pi/2"), ("tanh", "inf", 1), ("tanh", "ninf", -1), ("cosh", "inf", "inf"), ("sinh", "ninf", "ninf"),
                                              ("exp", "nan", "nan"), ("sin", "nan", "nan")])
                a = {"inf": mp.inf, "ninf": mp.ninf, "zero": mp.mpf(0), "nan": mp.nan}[arg]
                got = getattr(mp, name)(a)
                if want == "inf": ok = got == mp.inf
                elif want == "ninf": ok = got == mp.ninf
                elif want == "nan": ok = mp.isnan(got)
                elif want in ("pi/2", "-pi/2"):
                    ref = mp.pi / 2 if want == "pi/2" else -mp.pi / 2
                    yield ex.rel_close(got, ref, 1, p), {"key": "special/%s(%s)" % (name, arg), "p": p, "what": "atan(+-inf) is not pi/2 to within an ulp of the library's pi"}; continue
                else:
                    yield ex.eq(got, want), {"key": "special/%s(%s)" % (name, arg), "p": p, "what": "special value mismatch"}; continue
                yield ({"j": "true"} if ok else {"j": "false"}), {"key": "special/%s(%s)" % (name, arg), "p": p, "what": "special value mismatch"}
        except (ValueError, TypeError):
            yield None


def main():
    oblcommon.run(PROP, LEVEL, gen_,
                  "constructed exact input/output pairs (perfect powers with long mantissas, huge integers and half-integers, roundings of k*pi/2, specials); distinct = (case, argument, precision)",
                  ["pi used for atan(inf) and for the arguments next to k*pi/2 is the library's own pi (C17 judges it)"])


replay = oblcommon.replay
