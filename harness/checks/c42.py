"""C42 -- numerical inverse Laplace transforms are accurate on standard problems.

[E] for transforms with polynomial inverses (1/p^k <-> t^(k-1)/(k-1)!, rational t): the three methods
against the exact rational value within 10^(3 - dps/2) relative (the stated bound), decided exactly
by TLC.  [R] for exponential / trigonometric inverses: the three methods agree pairwise within the
sum of their tolerances and with the library's own closed form evaluated at higher precision."""
import fractions
from .. import ex
from . import oblcommon

PROP = "C42"; LEVEL = "exploration"
Fr = fractions.Fraction


def gen(chk, mpmath, rng):
    mp = mpmath.mp
    for i in range(chk.pick(150, 2000)):
        dps = rng.choice([15, 20, 30, 40])
        mp.dps = dps
        p = mp.prec
        t = Fr(rng.randint(1, 80), rng.choice([8, 10, 16]))
        T = mp.mpf(t.numerator) / t.denominator
        meth = rng.choice(["talbot", "stehfest", "dehoog"])
        tolq = Fr(10) ** 3 / Fr(10) ** (dps // 2)                 # 10^(3 - dps/2)
        kind = rng.random()
        try:
            if kind < 0.5:
                k = rng.randint(1, 5)
                got = mp.invertlaplace(lambda s: 1 / s ** k, T, method=meth)
                exact = ex.div(ex.powi(ex.Qf(t), k - 1), ex.seqn("fact", k - 1))
                if hasattr(got, "_mpc_"):
                    got = got.real
                yield ex.le(ex.ab(ex.sub(got, exact)), ex.mul(ex.Qf(tolq), ex.ab(exact))), {"key": "poly/" + meth, "k": k, "t": str(t), "dps": dps, "p": p,
                                                                                             "what": "inverse Laplace transform of 1/p^k differs from t^(k-1)/(k-1)! by more than 10^(3-dps/2)"}
            else:
                a = mp.mpf(rng.randint(1, 4)) / rng.choice([1, 2])
                which = rng.choice(["exp", "sin", "cos"])
                F = {"exp": lambda s: 1 / (s + a), "sin": lambda s: a / (s ** 2 + a ** 2), "cos": lambda s: s / (s ** 2 + a ** 2)}[which]
                vals = {}
                # the fixed Talbot contour crosses the imaginary axis at about 0.63*degree/t: poles +-ai of the
                # oscillatory transforms lie outside it when a*t is large ("can catastrophically fail for ...
                # some oscillatory behaviors" in the method's documentation), so Talbot is only judged well inside
                # (and de Hoog's Fourier sum at the default degree stops near 2*dps/t: observed 25% off for
                # sin(4t) at t = 8, dps 15).  Poles on the imaginary axis with a large phase a*t are outside
                # "singularities in the left half-plane ... or the accuracy documented": not judged.
                if which != "exp" and a * T > mp.mpf(3 * dps) / 10:
                    yield None
                    continue
                for m in ("talbot", "dehoog"):
                    v = mp.invertlaplace(F, T, method=m)
                    vals[m] = v.real if hasattr(v, "_mpc_") else v
                # anchored to the specification's own series when the argument a*t is a dyadic number: the inverse must lie within
                # 10^(3-dps/2) of exp / sin / cos of that exact argument as enclosed by RealFun (op "real"; tol in bits)
                if t.denominator & (t.denominator - 1) == 0:
                    from .. import enc
                    import math
                    arg = (-a * T) if which == "exp" else (a * T)           # exact: both are short dyadics
                    at = arg._mpf_
                    tolbits = p + int(math.floor((3 - dps // 2) * math.log2(10))) + 1
                    for m in vals:
                        yt = vals[m]._mpf_
                        if not yt[1] or abs(vals[m]) < mp.mpf(2) ** -7:
                            continue                                        # tiny values (zeros of sin / cos, exp(-a t) decayed far below its scale): the methods bound
                                                                            # the error relative to the scale of f, so these are left to the mixed bound below
                        w = p + 40 + max(0, at[2] + at[3]) + max(0, -(yt[2] + yt[3]))
                        yield enc.event(0, "real", [enc.f(at)], p, "n", enc.f(yt), pb=0, x={"f": which, "w": w, "tol": tolbits}), \
                            {"key": "series-enclosure/%s/%s" % (which, m), "a": str(a), "t": str(t), "dps": dps, "p": p,
                             "what": "inverse transform is farther than 10^(3-dps/2) (relative) from the closed form enclosed by the spec's own series"}
                mp.dps = 2 * dps + 10
                ref = {"exp": lambda: mp.exp(-a * T), "sin": lambda: mp.sin(a * T), "cos": lambda: mp.cos(a * T)}[which]()
                mp.dps = dps
                js = [ex.le(ex.ab(ex.sub(vals[m], ref)), ex.mul(ex.Qf(tolq), ex.mx(ex.ab(ref), ex.Qf(Fr(1, 100))))) for m in vals]
                yield ex.allj(*js), {"key": "elementary/" + which, "a": str(a), "t": str(t), "dps": dps, "p": p,
                                     "what": "talbot / dehoog inverse differs from the closed form (library exp/sin/cos at higher precision) by more than 10^(3-dps/2)"}
        except (ZeroDivisionError, ValueError, TypeError, mpmath.libmp.NoConvergence):
            yield None
        finally:
            mp.dps = 15


def main():
    oblcommon.run(PROP, LEVEL, gen,
                  "1/p^k with rational t for the three methods (exact), exp/sin/cos inverses for talbot and dehoog (relational); distinct = (transform, t, method, dps)",
                  ["closed forms with exp/sin/cos are taken from the library at higher precision until the series oracle is wired in"])


replay = oblcommon.replay
