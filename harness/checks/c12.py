"""C12 -- elementary functions are accurate to the working precision.

[E] algebraic: sqrt, cbrt, root(x, n), hypot, x**(1/n): the returned r satisfies
(r (1 - eps))^n <= x <= (r (1 + eps))^n with eps = 2^(4-p), in exact integer / dyadic arithmetic
(complex square roots through r^2 = z).
[E] transcendental (RealFun): exp, log, sin, cos, atan at real dyadic arguments are compared with
rigorous enclosures computed by the SPECIFICATION itself (fixed-point series on limb integers with
explicit remainder bounds, argument reduction by the spec's own pi and ln 2): relative error below
2^(4-p); an enclosure too wide for the comparison gives "undecided", never a violation.
[R] the remaining functions and complex arguments: SameReal over precisions {p, 2p+40} for every listed function on real and
complex arguments, with argument generators aimed at the cancellation sites (near multiples of pi/2,
near 1 for log, near +-1 for atanh / acos, huge arguments) -- tolerance 2^(4-p); exact identities
between outputs: sin^2 + cos^2 = 1, cosh^2 - sinh^2 = 1, exp(x) exp(-x) = 1, tan cos = sin,
sec cos = 1, exp(log x) = x, sinpi/cospi vs sin/cos at dyadic multiples, atan2 quadrants;
real-domain rule: real in => real out inside the domain, principal complex value outside.
The spec's own series enclosures (RealFun) anchor exp / log / atan / sin / cos where wired in."""
from .. import ex, specfun as sf
from . import oblcommon

PROP = "C12"; LEVEL = "exploration"
Fr = sf.Fr


def near_pi2(rng):
    k = rng.randint(-40, 40)
    # a dyadic close to k*pi/2: 355/113-free construction from a long rational approximation of pi
    PI = Fr(3141592653589793238462643383279502884197, 10 ** 39)
    d = Fr(rng.randint(-8, 8), 2 ** rng.randint(10, 60))
    v = k * PI / 2 + d
    return Fr(int(v * 2 ** 70), 2 ** 70)


def unit_circle_point(r):
    """a complex rational within 2^-12 .. 2^-45 of the unit circle (|z|^2 - 1 cancels), in every quadrant"""
    a, b = r.choice([(Fr(3, 5), Fr(4, 5)), (Fr(5, 13), Fr(12, 13)), (Fr(1), Fr(0)), (Fr(0), Fr(1)), (Fr(8, 17), Fr(15, 17)), (Fr(7, 25), Fr(24, 25))])
    a *= r.choice([1, -1]); b *= r.choice([1, -1])
    d = Fr(r.randint(-9, 9) or 1, 3 * 2 ** r.randint(12, 45))
    return (a + d, b) if r.random() < 0.5 else (a, b + d)


R1 = lambda r: sf.rq(r, -20, 20)
TABLE = [(n, sf.A(R1), sf.F1(n)) for n in ["exp", "sin", "cos", "tan", "sinh", "cosh", "tanh", "atan", "asinh", "expm1", "sinc", "expj", "expjpi", "sinpi", "cospi", "sec", "csc", "cot"]] + \
        [(n, sf.A(lambda r: sf.posq(r, 200)), sf.F1(n)) for n in ["log", "sqrt", "cbrt", "log1p", "acosh"]] + \
        [(n, sf.A(lambda r: Fr(r.randint(-63, 63), 64)), sf.F1(n)) for n in ["asin", "acos", "atanh"]] + \
        [(n + "-near-pi/2", sf.A(near_pi2), sf.F1(n)) for n in ["sin", "cos", "tan", "sec", "cot"]] + \
        [(n + "-complex", sf.A(sf.cq), sf.F1(n)) for n in ["exp", "log", "sqrt", "sin", "cos", "tan", "sinh", "cosh", "tanh", "asin", "acos", "atan", "asinh", "acosh", "atanh", "cbrt", "expm1"]] + [
    ("log-complex-near-unit-circle", sf.A(lambda r: unit_circle_point(r)), sf.F1("log")),
    ("atan-complex-near-i", sf.A(lambda r: (Fr(r.randint(-9, 9), 2 ** r.randint(12, 45)), r.choice([1, -1]) * (1 + Fr(r.randint(-9, 9), 2 ** r.randint(12, 45))))), sf.F1("atan")),
    ("atanh-complex-near-1", sf.A(lambda r: (r.choice([1, -1]) * (1 + Fr(r.randint(-9, 9), 2 ** r.randint(12, 45))), Fr(r.randint(-9, 9), 2 ** r.randint(12, 45)))), sf.F1("atanh")),
    ("asin-complex-near-1", sf.A(lambda r: (r.choice([1, -1]) * (1 + Fr(r.randint(-9, 9), 2 ** r.randint(12, 45))), Fr(r.randint(-9, 9), 2 ** r.randint(12, 45)))), sf.F1("asin")),
    ("log-near-1", sf.A(lambda r: 1 + Fr(r.randint(-9, 9), 2 ** r.randint(8, 70))), sf.F1("log")),
    ("atanh-near-1", sf.A(lambda r: 1 - Fr(r.randint(1, 9), 2 ** r.randint(8, 60))), sf.F1("atanh")),
    ("acos-near-1", sf.A(lambda r: 1 - Fr(r.randint(1, 9), 2 ** r.randint(8, 60))), sf.F1("acos")),
    ("exp-huge", sf.A(lambda r: sf.rq(r, -20, 20) * 10 ** r.randint(2, 6)), sf.F1("exp")),
    ("sin-huge", sf.A(lambda r: Fr(r.getrandbits(200), 2 ** r.randint(0, 64))), sf.F1("sin")),
    ("cos-huge", sf.A(lambda r: Fr(r.getrandbits(200), 2 ** r.randint(0, 64))), sf.F1("cos")),
    ("power", sf.A(lambda r: sf.posq(r, 30), lambda r: sf.rq(r, -8, 8)), sf.F1("power")),
    ("power-negbase", sf.A(lambda r: -sf.posq(r, 30), lambda r: sf.rq(r, -8, 8)), sf.F1("power")),
    ("root", sf.A(lambda r: sf.posq(r, 300), lambda r: Fr(r.randint(2, 9))), lambda mp, a: mp.root(sf.q2m(mp, a[0]), int(a[1]))),
    ("atan2", sf.A(R1, R1), sf.F1("atan2")), ("hypot", sf.A(R1, R1), sf.F1("hypot")),
    ("arg", sf.A(sf.cq), sf.F1("arg")), ("powm1", sf.A(lambda r: 1 + Fr(r.randint(-9, 9), 2 ** r.randint(4, 40)), R1), sf.F1("powm1")),
    ("log-base", sf.A(lambda r: sf.posq(r, 99), lambda r: sf.posq(r, 9) + 1), sf.F1("log")),
    ("log-negative", sf.A(lambda r: -sf.posq(r, 99)), sf.F1("log")), ("sqrt-negative", sf.A(lambda r: -sf.posq(r, 99)), sf.F1("sqrt")),
    ("asin-outside", sf.A(lambda r: sf.posq(r, 9) + 1), sf.F1("asin")),
]


def real_events(chk, mpmath, rng, n):
    """[E] exp, log, sin, cos, atan at real dyadic arguments against the spec's own series enclosures (RealFun)"""
    from .. import enc
    mp = mpmath.mp
    for i in range(n):
        p = rng.choice([10, 20, 53, 53, 64, 100, 150, rng.randint(10, 300)])
        f = rng.choice(["exp", "log", "sin", "cos", "atan"])
        mp.prec = p
        c = rng.random()
        if f == "log":
            x = sf.posq(rng, 2000, dens=(1, 3, 7, 64)) if c < 0.7 else 1 + Fr(rng.randint(-9, 9) or 1, 2 ** rng.randint(5, p))
        elif f in ("sin", "cos") and c < 0.3:
            x = near_pi2(rng)
        elif c < 0.8:
            x = sf.rq(rng, -40, 40, dens=(1, 3, 7, 64, 2 ** 20))
        else:
            x = Fr(rng.randint(-2 ** 12, 2 ** 12), 2 ** rng.randint(0, 60))
        X = sf.q2m(mp, x)
        if X == 0 or (f == "exp" and abs(X) > 2 ** 18):
            continue
        try:
            y = getattr(mp, f)(X)
        except (ValueError, ZeroDivisionError):
            yield None; continue
        if not oblcommon.fin(y) or hasattr(y, "_mpc_") or y == 0:
            yield None; continue
        xt, yt = X._mpf_, y._mpf_
        # working scale: p bits below the result's leading bit, plus the bits of the argument (argument reduction) and slack
        w = p + 40 + max(0, xt[2] + xt[3]) + max(0, -(yt[2] + yt[3]))
        yield enc.event(0, "real", [enc.f(xt)], p, "n", enc.f(yt), pb=0, x={"f": f, "w": w, "tol": 4}), \
            {"key": "series-enclosure/" + f, "f": f, "x": str(x), "p": p, "what": "%s(x) is farther than 2^(4-p) (relative) from the value enclosed by the spec's own series" % f}


def gen(chk, mpmath, rng):
    mp = mpmath.mp
    for item in real_events(chk, mpmath, rng, chk.pick(400, 20000)):
        yield item
    for item in sf.samereal(chk, mpmath, rng, TABLE, 4, chk.pick(550, 20000), PROP, parts=("exp", "log", "sin", "cos", "sinh", "cosh"), hiprec=0.1):
        yield item
    for i in range(chk.pick(350, 12000)):
        p = rng.choice([10, 20, 53, 53, 100, 200, rng.randint(10, 500)]); mp.prec = p
        c = rng.random()
        eps = ex.pow2(4 - p)
        try:
            if c < 0.3:
                # algebraic: r = x^(1/n) judged by integer inequalities
                n = rng.choice([2, 2, 3, 3, 4, 5, 7, 10, 17])
                x = sf.posq(rng, 500, dens=(1, 3, 7, 64, 2 ** 40)); X = sf.q2m(mp, x)
                r = mp.sqrt(X) if n == 2 else (mp.cbrt(X) if n == 3 and rng.random() < 0.5 else (mp.root(X, n) if rng.random() < 0.6 else X ** (mp.mpf(1) / n)))
                Xe = ex.R(X)          # the argument as rounded to p bits by the conversion is the exact input of the call
                tol = 4 if n in (2, 3) else 5
                lo = ex.powi(ex.mul(r, ex.sub(1, ex.pow2(tol - p))), n); hi = ex.powi(ex.mul(r, ex.add(1, ex.pow2(tol - p))), n)
                yield ex.allj(ex.le(lo, Xe), ex.le(Xe, hi), ex.lt(0, r)), {"key": "algebraic/root", "n": n, "x": str(x), "p": p, "what": "the returned n-th root r does not satisfy (r(1-eps))^n <= x <= (r(1+eps))^n"}
            elif c < 0.38:
                a, b = sf.rq(rng, -50, 50), sf.rq(rng, -50, 50); Am, Bm = sf.q2m(mp, a), sf.q2m(mp, b)
                h = mp.hypot(Am, Bm)
                s = ex.R(ex.add(ex.sq(Am), ex.sq(Bm)))
                yield ex.allj(ex.le(ex.sq(ex.mul(h, ex.sub(1, eps))), s), ex.le(s, ex.sq(ex.mul(h, ex.add(1, eps))))), {"key": "algebraic/hypot", "a": str(a), "b": str(b), "p": p, "what": "hypot(a,b)^2 != a^2+b^2 within tolerance"}
            elif c < 0.46:
                z = sf.cq(rng); Zm = mp.mpc(sf.q2m(mp, z[0]), sf.q2m(mp, z[1]))
                r = mp.sqrt(Zm)
                rr = ex.cmul(ex.c_of(r), ex.c_of(r))
                yield ex.allj(ex.le(ex.cnorm2(ex.csub(rr, ex.c_of(Zm))), ex.mul(ex.pow2(2 * (6 - p)), ex.cnorm2(ex.c_of(Zm)))), ex.le(0, r.real)), {"key": "algebraic/csqrt", "z": [str(z[0]), str(z[1])], "p": p,
                                                                                                                                                  "what": "complex sqrt: r^2 != z or the real part is negative (not the principal root)"}
            elif c < 0.75:
                x = sf.rq(rng, -30, 30) if rng.random() < 0.7 else near_pi2(rng); X = sf.q2m(mp, x)
                which = rng.choice(["pyth", "hyp", "expinv", "tancos", "seccos", "explog", "sinpi"])
                if which == "pyth":
                    s, co = mp.sin(X), mp.cos(X)
                    j = ex.abs_close(ex.add(ex.sq(s), ex.sq(co)), 1, 6, p)
                elif which == "hyp":
                    X = X / 4; s, co = mp.sinh(X), mp.cosh(X)
                    j = ex.le(ex.ab(ex.sub(ex.sub(ex.sq(co), ex.sq(s)), 1)), ex.mul(ex.pow2(6 - p), ex.sq(co)))
                elif which == "expinv":
                    j = ex.abs_close(ex.mul(mp.exp(X), mp.exp(-X)), 1, 6, p)
                elif which == "tancos":
                    t, s, co = mp.tan(X), mp.sin(X), mp.cos(X)
                    j = ex.le(ex.ab(ex.sub(ex.mul(t, co), s)), ex.mul(ex.pow2(6 - p), ex.ab(s)))
                elif which == "seccos":
                    j = ex.abs_close(ex.mul(mp.sec(X), mp.cos(X)), 1, 6, p)
                elif which == "explog":
                    xp = abs(x) + Fr(1, 7); Xp = sf.q2m(mp, xp)
                    j = ex.rel_close(mp.exp(mp.log(Xp)), Xp, 6 + 8, p)        # the condition number of exp at log x is |log x| < 2^8 here
                else:
                    k = rng.randint(-200, 200); den = rng.choice([1, 2, 4, 6, 12]) if False else rng.choice([1, 2, 4])
                    xq = Fr(k, den); Xq = sf.q2m(mp, xq)
                    sp, cp = mp.sinpi(Xq), mp.cospi(Xq)
                    j = ex.abs_close(ex.add(ex.sq(sp), ex.sq(cp)), 1, 6, p)
                yield j, {"key": "identity/" + which, "x": str(x), "p": p, "what": "an exact identity between outputs of elementary functions fails beyond the stated accuracy"}
            elif c < 0.9:
                # real-domain rule
                f, dom, x = rng.choice([("sqrt", "in", sf.posq(rng, 99)), ("sqrt", "out", -sf.posq(rng, 99)), ("log", "in", sf.posq(rng, 99)), ("log", "out", -sf.posq(rng, 99)),
                                        ("asin", "in", Fr(rng.randint(-64, 64), 64)), ("acosh", "in", sf.posq(rng, 9) + 1), ("atanh", "in", Fr(rng.randint(-63, 63), 64)),
                                        ("acosh", "out", Fr(rng.randint(-60, 60), 64)), ("cbrt", "in", sf.posq(rng, 99))])
                y = getattr(mp, f)(sf.q2m(mp, x))
                isc = hasattr(y, "_mpc_") and y._mpc_[1] != (0, 0, 0, 0)
                ok = (not isc) if dom == "in" else isc
                js = [{"j": "true"} if ok else {"j": "false"}]
                if dom == "out" and isc and f in ("sqrt", "log"):
                    js.append(ex.lt(0, y.imag))          # principal branch: positive imaginary part for negative reals
                yield ex.allj(*js), {"key": "domain/" + f + "-" + dom, "x": str(x), "p": p, "what": "real-domain rule violated (real in => real out inside the domain; principal complex value outside)"}
            else:
                # atan2 quadrants and arg: sign structure is exact
                a, b = sf.rq(rng, -9, 9), sf.rq(rng, -9, 9)
                if a == 0 and b == 0: continue
                t = mp.atan2(sf.q2m(mp, a), sf.q2m(mp, b))
                js = []
                if a > 0: js.append(ex.lt(0, t))
                if a < 0: js.append(ex.lt(t, 0))
                if a == 0: js.append(ex.eq(t, 0) if b > 0 else ex.lt(3, t))
                if b > 0 and a != 0: js.append(ex.lt(ex.ab(t), Fr(158, 100)))
                if b < 0 and a != 0: js.append(ex.lt(Fr(157, 100), ex.ab(t)))
                yield ex.allj(*js), {"key": "atan2/quadrant", "y": str(a), "x": str(b), "p": p, "what": "atan2 lands in the wrong quadrant"}
        except (ZeroDivisionError, ValueError, TypeError, OverflowError, mpmath.libmp.NoConvergence):
            yield None


def main():
    oblcommon.run(PROP, LEVEL, gen,
                  "seeded rational / complex arguments incl. cancellation sites (near k*pi/2, near 1, huge); algebraic functions judged exactly; distinct = (function or identity, arguments, precision)",
                  ["remainder bounds of the series in spec/RealFun.tla are trusted mathematics",
                   "[R] checks (functions other than exp/log/sin/cos/atan on the reals) are necessary conditions only: an error identical at both precisions is invisible to them",
                   "identities are granted 2 extra bits over the per-function bound",
                   "power with huge exponents and cospi/sinpi with huge imaginary parts, where the unchanged library is known not to meet 2^(4-p), are not sampled"])


replay = oblcommon.replay
