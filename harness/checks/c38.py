"""C38 -- contexts are isolated from each other.

M1: PrecCtx with three contexts (cfg/PrecCtx_iso.cfg): action property Isolation, exhaustive.
M3: seeded interleavings of precision/flag changes, manager blocks and evaluations over mp, two
    clones, iv and fp; after every step the full settings vector of *every* context is logged and
    TLC (TracePrecCtx: act / enter / exit / same events) requires that only the acted-on context
    moved, and that a clone at the same precision returns bit-identical values."""
import json, random
from .. import core, tlc, precrec, enc
from . import c11

PROP = "C38"; LEVEL = "model_checking"

CALLS = [
    ("sqrt2", lambda c: c.sqrt(2)), ("exp1", lambda c: c.exp(1)), ("pi", lambda c: +c.pi),
    ("log10", lambda c: c.log(10)), ("gamma", lambda c: c.gamma(c.mpf(7) / 3)), ("zeta3", lambda c: c.zeta(3)),
    ("sin1", lambda c: c.sin(1)), ("atan", lambda c: c.atan(c.mpf(3) / 7)), ("besselj", lambda c: c.besselj(1, c.mpf(5) / 2)),
    ("erf", lambda c: c.erf(c.mpf(1) / 3)), ("div", lambda c: c.mpf(1) / 3), ("euler", lambda c: +c.euler),
    ("quad", lambda c: c.quad(lambda x: x * x, [0, 1])), ("bern", lambda c: c.bernoulli(20)),
    ("cplx", lambda c: c.exp(c.mpc(1, 2))), ("lu", lambda c: c.det(c.matrix([[1, 2], [3, 5]]))),
]


def raw(v):
    if hasattr(v, "_mpf_"):
        return ["f"] + [int(x) for x in v._mpf_]
    if hasattr(v, "_mpc_"):
        return ["c"] + [int(x) for t in v._mpc_ for x in t]
    if hasattr(v, "_mpi_"):
        return ["v"] + [int(x) for t in v._mpi_ for x in t]
    return ["o", repr(v)]


def program(mpmath, seed, steps):
    rng = random.Random(seed)
    mp = mpmath.mp
    ctxs = {"mp": mp, "c1": mp.clone(), "c2": mp.clone(), "iv": mpmath.iv}
    rec = precrec.PrecRecorder(ctxs)
    rec.ctx["fp"] = mpmath.fp           # read-only participant of the settings vector
    rec.events = []
    rec.log("init")
    meta = {}
    names = ["mp", "c1", "c2", "iv"]
    try:
        for step in range(steps):
            cn = rng.choice(names)
            c = ctxs[cn]
            a = rng.random()
            desc = None
            if a < 0.2:
                n = rng.choice([rng.randint(1, 400), 53, 54, 100])
                c.prec = n; desc = ["set_prec", cn, n]
                idx = rec.log("act", c=cn)
            elif a < 0.35:
                n = rng.choice([rng.randint(1, 100), 15, 30])
                c.dps = n; desc = ["set_dps", cn, n]
                idx = rec.log("act", c=cn)
            elif a < 0.45:
                c.pretty = not c.pretty; desc = ["pretty", cn]
                idx = rec.log("act", c=cn)
            elif a < 0.52 and cn != "iv":
                c.trap_complex = not c.trap_complex; desc = ["trap_complex", cn]
                idx = rec.log("act", c=cn)
            elif a < 0.8:
                name, fn = rng.choice(CALLS)
                if cn == "iv" and name in ("zeta3", "besselj", "erf", "euler", "quad", "bern", "lu", "atan"):
                    name, fn = CALLS[0]
                desc = ["call", cn, name]
                rec.log("enter", f=name, c=cn)
                try:
                    if rng.random() < 0.3 and cn != "iv":
                        with c.workprec(rng.randint(10, 300)):
                            fn(c)
                    else:
                        fn(c)
                    kind = "return"
                except Exception as e:
                    kind = "raise"
                idx = rec.log(kind, f=name, c=cn, exc="")
            else:
                # clone equivalence: same call in mp and a clone at the same precision
                cl = ctxs[rng.choice(["c1", "c2"])]
                p = rng.choice([mp.prec, rng.randint(10, 300)])
                mp.prec = p; rec.log("act", c="mp")
                cl.prec = p; rec.log("act", c=[k for k, v in ctxs.items() if v is cl][0])
                name, fn = rng.choice(CALLS)
                try:
                    a1, a2 = raw(fn(mp)), raw(fn(cl))
                except Exception as e:
                    continue
                desc = ["same", name, p]
                rec.events.append({"ev": "same", "a": [str(x) for x in a1], "b": [str(x) for x in a2]})
                idx = len(rec.events) - 1
            meta[idx] = desc
    finally:
        rec.restore()
        for c in ctxs.values():
            c.prec = 53
            c.pretty = False
        mp.trap_complex = False
    return rec.events, meta


def main():
    chk = core.Check(PROP, LEVEL)
    mpmath = core.use_repo()
    res = tlc.run_model("PrecCtx", "PrecCtx_iso.cfg", timeout=3600)
    chk.add_model(res, "PrecCtx/PrecCtx_iso.cfg")
    if not res["ok"]:
        if res["violated"]:
            chk.violation("model/PrecCtx/" + res["violated"], "design model violates " + res["violated"], {"cfg": "PrecCtx_iso.cfg"})
        else:
            chk.machinery("PrecCtx_iso: TLC failed\n" + res["output"][-2000:])
    traces, metas = [], []
    nprog = chk.pick(16, 160)
    for k in range(nprog):
        ev, meta = program(mpmath, chk.seed * 100003 + k, chk.pick(150, 400))
        traces.append(ev); metas.append(meta)
    bad = c11.judge_traces(traces, PROP)
    for t, meta in enumerate(metas):
        for idx, desc in meta.items():
            chk.count()
            chk.distinct((t, idx), True)
    chk.add_traces(len(traces))
    chk.sample({"program_prefix": [m for _, m in sorted(metas[0].items())][:12]})
    for (t, j), clauses in sorted(bad.items()):
        desc = metas[t].get(j)
        for cl in clauses:
            if cl in ("isolation", "clone", "sync"):
                chk.violation("%s/%s" % (cl, desc[0] if desc else "?"), "context isolation violated at step %s of program %d" % (desc, t),
                              {"seed": chk.seed * 100003 + t, "steps": chk.pick(150, 400), "step": j, "desc": desc})
    chk.cov["rule"] = ("seeded random programs interleaving prec/dps/pretty/trap_complex changes, workprec blocks and evaluations over "
                       "mp, two clones, iv (fp observed); distinct = (program, step); every step is judged by TLC against TracePrecCtx")
    chk.assumptions += ["settings vector = (prec, dps, pretty, trap_complex) of each context", "module-level caches shared between contexts are covered by C33"]
    chk.finish()


def replay(path):
    chk = core.Check(PROP, LEVEL)
    mpmath = core.use_repo()
    r = json.load(open(path))["replay"]
    ev, meta = program(mpmath, r["seed"], r["steps"])
    bad = c11.judge_traces([ev], PROP)
    print("verdict:", {k: v for k, v in bad.items()}, "expected step", r["step"], r["desc"])
    if bad:
        print("VIOLATION property=%s replay=%s" % (PROP, path)); raise SystemExit(1)
    raise SystemExit(0)
