"""C10 -- trace invariant "bits" of spec/Judge.tla evaluated by TLC on every real component of every
outcome of the pooled arithmetic corpus (all groups of harness/arith.py)."""
from .. import machine, core, gen, cases, arith
from . import common

PROP = "C10"; LEVEL = "model_checking"


def main():
    chk = core.Check(PROP, LEVEL)
    mp = core.use_repo()
    runner = cases.Runner(mp)
    common.run_models(chk, MODELS)
    machine.run(chk, mp)
    cs = []
    per = chk.pick(700, 20000)
    for k, (name, grp) in enumerate(sorted(arith.GROUPS.items())):
        g = gen.G(chk.seed * 1000003 + 100 * int(PROP[1:]) + k)
        cs += grp(g, per if name != "C03" else per // 4)
    common.judge_cases(chk, cs, runner, "bits", "a rounded operation returned more mantissa bits than the working precision")
    chk.cov["rule"] = ("pooled corpus of all arithmetic groups (C02, C03, C05, C06, C09, C39 generators); every mpf component of "
                       "every outcome is judged; distinct = distinct (op, level, args, prec, mode); non-trivial = finite nonzero operands")
    chk.assumptions += ["TLC evaluator and CommunityModules Json", "ZLimb (model-checked against native ints in ZLimbCheck)"]
    chk.finish()


def replay(path):
    common.replay(PROP, LEVEL, path, "bits")


MODELS = []
