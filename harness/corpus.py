"""Doctest corpus: every public callable's docstring examples as executable statement blocks.

A *block* is the list of example statements of one docstring (they share a namespace, as in the
documentation).  Statements that merely set the documentation's precision/pretty flags are
dropped so that the harness controls the working precision.  Used by the precision sweep (C11),
the API-wide canonical-form and bit-bound sweeps (C01, C10), termination (C24) and caches (C33)."""
import doctest, re, json, os, time

SETTER = re.compile(r"\b(mp|iv|fp)\.(dps|prec|pretty|trap_complex)\s*(=|\+=|-=)")
SKIP_SRC = re.compile(r"\b(plot|cplot|splot|raw_input|input|open|exec|monitor|timing)\b|import ")
HERE = os.path.dirname(os.path.abspath(__file__))


def blocks(ctx, names=None):
    """yield (name, [statements]) for each distinct docstring among the context's public callables"""
    seen = set()
    parser = doctest.DocTestParser()
    for name in sorted(names or [n for n in dir(ctx) if not n.startswith("_")]):
        try:
            obj = getattr(ctx, name)
        except Exception:
            continue
        doc = getattr(obj, "__doc__", None)
        if not doc or not callable(obj):
            continue
        if id(doc) in seen or doc in seen:
            continue
        seen.add(doc)
        try:
            exs = parser.get_examples(doc)
        except ValueError:
            continue
        stmts = []
        for ex in exs:
            src = ex.source.strip()
            if not src or SKIP_SRC.search(src):
                continue
            if SETTER.search(src) or src.startswith("from mpmath import"):
                continue
            stmts.append(src)
        if stmts:
            yield name, stmts


def namespace(mpmath, ctx):
    """a namespace in which the documentation's statements run against context ctx"""
    ns = {}
    for n in dir(ctx):
        if not n.startswith("_"):
            try:
                ns[n] = getattr(ctx, n)
            except Exception:
                pass
    ns["mp"] = ctx
    ns["mpmath"] = mpmath
    ns["fp"] = mpmath.fp
    ns["iv"] = mpmath.iv
    ns["print"] = lambda *a, **k: None
    return ns


def run_stmt(src, ns):
    """exec one statement; expressions are evaluated (and their value returned)"""
    try:
        code = compile(src, "<doc>", "eval")
    except SyntaxError:
        exec(compile(src, "<doc>", "exec"), ns)
        return None
    return eval(code, ns)


COST_FILE = os.path.join(HERE, "corpus_cost.json")


def load_cost():
    if os.path.exists(COST_FILE):
        return json.load(open(COST_FILE))
    return {}
