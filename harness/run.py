"""Entry point: python -m harness.run <ID> [--tier T] [--seed N] [--replay path]"""
import argparse, importlib, os, sys
from . import core


def main():
    ap = argparse.ArgumentParser()
    ap.add_argument("prop")
    ap.add_argument("--tier", default=None)
    ap.add_argument("--seed", default=None, type=int)
    ap.add_argument("--replay", default=None)
    a = ap.parse_args()
    if a.tier:
        os.environ["VERIF_TIER"] = a.tier
    if a.seed is not None:
        os.environ["VERIF_SEED"] = str(a.seed)
    mod = importlib.import_module("harness.checks.%s" % a.prop.lower())
    if a.replay:
        core.main_wrapper(lambda: mod.replay(a.replay))
    else:
        core.main_wrapper(mod.main)


if __name__ == "__main__":
    main()
