"""Relational and exact-point generators for the special-function accuracy properties
(C12, C18-C21, C23).  [R] SameReal: the values of one evaluation at precisions p and 2p+40 must
approximate one real number (|y_p - y_q| <= 2^(tol-p) |y_q|, modulus for complex values);
[R] identities with rational coefficients between outputs; [E] values at arguments where the
function is rational.  Everything is emitted as exact obligations for spec/Oblig.tla."""
import fractions
from . import ex
from .checks import oblcommon

Fr = fractions.Fraction


def q2m(mp, q):
    """Fraction -> mpf at the current precision; values that are already mpmath numbers pass through"""
    if isinstance(q, Fr):
        return mp.mpf(q.numerator) / q.denominator
    if isinstance(q, tuple):
        return mp.mpc(q2m(mp, q[0]), q2m(mp, q[1]))
    return q


def rq(rng, lo=-8, hi=8, dens=(1, 2, 3, 4, 8)):
    return Fr(rng.randint(lo * 8, hi * 8), 8 * rng.choice(dens))


def posq(rng, hi=12, dens=(1, 2, 3, 4, 8)):
    return Fr(rng.randint(1, hi * 8), 8 * rng.choice(dens))


def close(y1, y2, tol, p):
    """|y1 - y2| <= 2^(tol-p) |y2| for real or complex mpmath values (or tiny absolute difference at zero)"""
    if hasattr(y1, "_mpc_") or hasattr(y2, "_mpc_"):
        z1, z2 = ex.c_of(y1), ex.c_of(y2)
        return ex.anyj(ex.le(ex.cnorm2(ex.csub(z1, z2)), ex.mul(ex.pow2(2 * (tol - p)), ex.cnorm2(z2))), ex.le(ex.cnorm2(ex.csub(z1, z2)), ex.pow2(-8 * p)))
    return ex.anyj(ex.rel_close(y1, y2, tol, p), ex.abs_close(y1, y2, -7 * p, p))


def close_parts(y1, y2, tol, p):
    """per-part relative closeness (the bound applies to each of the real and imaginary parts)"""
    if not (hasattr(y1, "_mpc_") or hasattr(y2, "_mpc_")):
        return close(y1, y2, tol, p)
    z1, z2 = ex.c_of(y1), ex.c_of(y2)
    part = lambda a, b: ex.anyj(ex.rel_close(a, b, tol, p), ex.abs_close(a, b, -7 * p, p))
    return ex.allj(part(z1[0], z2[0]), part(z1[1], z2[1]))


def samereal(chk, mpmath, rng, table, tol, n, prop, parts=(), hiprec=0.0):
    """table: list of (name, argument generator(rng) -> list of Fractions/complex pairs, caller(mp, args) -> value)"""
    mp = mpmath.mp
    for i in range(n):
        name, agen, call = rng.choice(table)
        p = rng.choice([20, 53, 53, 100, 200, rng.randint(10, 400)])
        if rng.random() < hiprec:
            p = rng.randint(400, 1300)            # bands between the algorithm cut-offs (600, 1000, ...)
        args = agen(rng)
        try:
            mp.prec = p
            margs = [q2m(mp, a) for a in args]      # the SAME exact (p-bit) arguments are used at both precisions
            y1 = call(mp, margs)
            mp.prec = 2 * p + 40
            y2 = call(mp, margs)
            mp.prec = p
            if not (oblcommon.fin(y1) and oblcommon.fin(y2)):
                yield None; continue
            cmp_ = close_parts if name.split("-")[0] in parts else close
            yield cmp_(y1, y2, tol, p), {"key": "samereal/" + name + ("/p>=600" if p >= 600 else ""), "f": name, "args": [str(a) for a in args], "p": p,
                                          "what": "values at precisions p and 2p+40 are not approximations of one number to 2^(%d-p)" % tol}
        except (ZeroDivisionError, ValueError, TypeError, NotImplementedError, OverflowError, mpmath.libmp.NoConvergence, mpmath.libmp.ComplexResult):
            yield None


def sweep(mpmath, name, call, xs, p, tol, prop):
    """dense one-dimensional sweep at a fixed precision: SameReal (p against 2p+40) at every grid point, so that a
    wrong precision-dependent threshold (arguments of size c*p, c*sqrt(p), 2^-k) cannot hide between random samples.
    xs: exact arguments (Fractions, or tuples of Fractions for several arguments)"""
    mp = mpmath.mp
    for x in xs:
        args = list(x) if isinstance(x, (tuple, list)) else [x]
        try:
            mp.prec = p
            margs = [q2m(mp, a) for a in args]
            y1 = call(mp, margs)
            mp.prec = 2 * p + 40
            y2 = call(mp, margs)
            mp.prec = p
            if not (oblcommon.fin(y1) and oblcommon.fin(y2)):
                yield None; continue
            yield close(y1, y2, tol, p), {"key": "sweep/" + name + ("/p>=600" if p >= 600 else ""), "f": name, "args": [str(a) for a in args], "p": p,
                                          "what": "dense sweep: values at precisions p and 2p+40 are not approximations of one number to 2^(%d-p)" % tol}
        except (ZeroDivisionError, ValueError, TypeError, NotImplementedError, OverflowError, mpmath.libmp.NoConvergence, mpmath.libmp.ComplexResult):
            yield None
        finally:
            mp.prec = 53


def A(*gens):
    return lambda rng: [g(rng) for g in gens]


def F1(fname):
    return lambda mp, a: getattr(mp, fname)(*[q2m(mp, x) for x in a])


def cq(rng):
    return (rq(rng, -4, 4), rq(rng, -4, 4))
