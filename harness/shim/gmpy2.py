"""A pure-Python stand-in for the parts of gmpy2 that mpmath calls, so that mpmath's own
backend-conditional code (BACKEND == 'gmpy': gmpy_mpf_mul, gmpy_mpf_mul_int, gmpy_bitcount,
gmpy_trailing, numeral_gmpy, isqrt / sqrtrem / ifac aliases, tuning cutoffs) can be executed in a
sandbox without the C library.  It reproduces gmpy2's Python-visible semantics for these functions;
it says nothing about the C implementation.  (_mpmath_normalize / _mpmath_create are deliberately
absent: mpmath then keeps its Python normalisation, which is the code this check is about.)"""
import math


class mpz(int):
    def bit_scan1(self, start=0):
        n = int(self) >> start
        if n == 0:
            return None
        return (n & -n).bit_length() - 1 + start

    scan1 = bit_scan1

    def numdigits(self, base=2):
        n = abs(int(self))
        if base == 2:
            return max(n.bit_length(), 1)
        return len(digits(n, base))

    def bit_length(self):
        return int(self).bit_length()


def version():
    return "2.1.5"


def bit_length(n):
    return int(n).bit_length()


def isqrt(n):
    return math.isqrt(int(n))


def isqrt_rem(n):
    r = math.isqrt(int(n))
    return r, int(n) - r * r


def fac(n):
    return math.factorial(int(n))


def digits(n, base=10):
    n = int(n)
    if base == 10:
        return str(n)
    neg = n < 0
    n = abs(n)
    ds = "0123456789abcdefghijklmnopqrstuvwxyz"
    out = ""
    while n:
        n, r = divmod(n, base)
        out = ds[r] + out
    return ("-" if neg else "") + (out or "0")
