"""Builds /verif/MANIFEST.json from the table below (python -m harness.manifest_src)."""
import json, os

VERIF = os.path.dirname(os.path.dirname(os.path.abspath(__file__)))
BASELINE_OFF = ("cd /repo && /venv/bin/python -m pytest -ra -q -p no:cacheprovider --timeout=900 "
                "--continue-on-collection-errors")

MC = "model_checking"
EX = "exploration"

# id -> (level, technique, text, note, design_ref)
CHECKS = {
 "C02": (MC, "TLA+ rounding oracle (Exact/MpfPost) model-checked in small scope + TLC exhaustive model of the transcribed libmp algorithms (MpfMachine, Algo => Post) with every transition replayed on the real functions + TLC trace validation of recorded calls on limb integers",
         "RoundingLemmas (TLC, exhaustive small universe) ties the checker/functional forms of the rounding oracle together; "
         "every recorded call of add/sub/mul/div/sqrt/neg/abs/pos/constructors/fsum/fdot through four entry levels is judged by TLC "
         "against MpfPost in exact limb arithmetic (total verdicts). MpfMachine (TLC, exhaustive): transcribed _normalize/mpf_add/mpf_mul/mpf_div/mpf_sqrt equal the correctly rounded exact result "
         "for every operand pair, precision and mode of a miniature universe (scaled constants on native ints; real constants on limbs with exponents astride the far threshold); each transition is replayed on the real function (identical tuple).",
         "Trusted: TLC evaluator, CommunityModules Json, ZLimb (refinement-checked by ZLimbCheck), the recorder's encoder. "
         "Exponents beyond 2^30 are not encoded. Sampling at real sizes is seeded, not exhaustive.", "DESIGN.md §4 C02"),
}

TRACE_NOTE = ("Trusted: TLC evaluator, CommunityModules Json, ZLimb (refinement-checked by ZLimbCheck), the recorder's encoder. "
              "Exponents beyond 2^30 are not encoded. Sampling at real sizes is seeded, not exhaustive.")
MACH_TECH = ("; TLC exhaustive model of the transcribed libmp algorithms (MpfMachine: Algo => Post over a miniature float universe, scaled and real constants) "
             "with every model transition replayed on the real functions")
MACH_TEXT = (" MpfMachine (TLC, exhaustive): the transcribed _normalize/mpf_add/mpf_mul/mpf_div/mpf_mod/mpf_cmp meet the postcondition for every operand pair, "
             "precision and mode of a miniature universe, with the code's shortcut constants scaled (native ints) and real (limbs, exponents astride 100); "
             "every printed transition is replayed on the real libmp function and must return the identical tuple.")
TRACE_TECH = "TLC trace validation of recorded calls against the TLA+ postconditions (MpfPost) in exact limb arithmetic"
CHECKS.update({
 "C01": (MC, TRACE_TECH + "; invariant Canonical on every outcome component" + MACH_TECH,
         "Every real component of every outcome of the pooled arithmetic corpus is judged canonical by TLC (spec/Exact.tla Canonical)." + MACH_TEXT,
         TRACE_NOTE, "DESIGN.md §4 C01"),
 "C03": (MC, TRACE_TECH + " (PostPowInt: exact power on limbs, side / 1-ulp / exactness clauses); TLC exhaustive model of the transcribed mpf_pow_int "
         "(MpfMachineL: directed binary exponentiation, reciprocal mode swap; scaled and real thresholds) with the real-threshold transitions replayed on the real function",
         "x**n events (libmp, ** operator, power()) judged by TLC against the exact power computed on limbs, incl. hard cases (many-bit n-th roots of p-bit numbers). "
         "MpfMachineL (TLC, exhaustive, limbs): the transcribed mpf_pow_int meets PostPowInt for every base of a miniature universe (incl. 104- and 341-bit mantissas), exponent in "
         "{-5..7} / {-3,2,3,5,8}, precision and mode, with the exact-power threshold scaled to 12 (loop reached by small operands) and real (1000); the real-threshold "
         "transitions are replayed on the real function (identical tuples).",
         TRACE_NOTE + " Exact powers limited to 15000 bits.", "DESIGN.md §4 C03"),
 "C05": (MC, TRACE_TECH + " (exact dyadic comparison; equal => equal hash)" + MACH_TECH,
         "Comparison and hash events (mpf vs mpf/int/float, all six relations) judged by TLC against exact comparison." + MACH_TEXT + " (The hash rule is covered by the trace part only.)",
         TRACE_NOTE, "DESIGN.md §4 C05"),
 "C06": (MC, TRACE_TECH + " (integer-part definitions; modulo with verified quotient witness)" + MACH_TECH,
         "floor/ceil/nint/frac/int()/mod events judged by TLC; the quotient of x mod y is an untrusted witness verified exactly by the spec." + MACH_TEXT + " The model also covers mpf_round_int (floor / ceil / nint = the exact integer part for every 5-bit (8-bit thorough) mantissa and exponent), replayed on the real function.",
         TRACE_NOTE + " x mod 0 is outside the statement and not judged.", "DESIGN.md §4 C06"),
 "C09": (EX, TRACE_TECH + " (IEEE double geometry F64Val / PostToFloat)",
         "float(x) and mpf(float) events judged by TLC against the double geometry defined in the spec.",
         TRACE_NOTE + " Subnormal results are outside the statement and not judged.", "DESIGN.md §4 C09"),
 "C10": (MC, TRACE_TECH + "; invariant BitsLe(component, precision) on every rounded-class outcome" + MACH_TECH,
         "Every real component of every rounded-class outcome of the pooled corpus is judged by TLC to have at most prec bits." + MACH_TEXT,
         TRACE_NOTE, "DESIGN.md §4 C10"),
 "C39": (EX, TRACE_TECH + " (PostMag/PostFrexp/PostLdexp/PostIsInt/PostNintDistance)",
         "mag/frexp/ldexp/isint/nint_distance events judged by TLC against their exact definitions.",
         TRACE_NOTE, "DESIGN.md §4 C39"),
})
CHECKS.update({
 "C11": (MC, "TLC exhaustive design model of the save/restore idioms with fault injection (PrecCtx) + TLC trace validation (TracePrecCtx) of recorded setter/enter/exit events with enumerated crash points",
         "PrecCtx proves idioms A/M restore (prec, dps) from every start precision with a fault at every step and refutes idioms B/C; every "
         "documentation statement of every public callable is executed at non-dps-image precisions, normally and with exceptions injected at "
         "the k-th start of internal primitives / user callbacks, and the recorded events are validated by TLC against TracePrecCtx.",
         "Trusted: TLC, the logging property setters (all precision writes go through them; the sync clause detects others at call boundaries), "
         "sys.monitoring injection. Conversion formulas validated against libmp on 1..36000 at start-up. Crash points are sampled per statement "
         "in the quick tier.", "DESIGN.md §4 C11"),
 "C17": (MC, "TLC exhaustive model of the constant memo for an arbitrary constant (ConstMemo) + TLC trace validation of request histories on the real constants",
         "ConstMemo: history-free, side-correct, 1-ulp and correctly-rounded-outside-ambiguity for every constant and history; real histories judged "
         "by TLC for memo rule, history-freedom, mode ordering/adjacency and nested enclosures.",
         "Values are judged relationally (one real number compatible with all answers); numerical anchoring of the elementary constants uses the spec's "
         "series enclosures (RealFun) where wired in. Fixed-point routines are assumed to return true floors (refuted alternative shown by cfg/ConstMemo_floorerr).",
         "DESIGN.md §4 C17"),
 "C38": (MC, "TLC exhaustive three-context design model (PrecCtx Isolation) + TLC trace validation of interleaved programs over mp, clones, iv, fp",
         "Action property Isolation over three contexts; seeded interleavings of setting changes, manager blocks and evaluations with the settings vector "
         "of every context logged after each step and judged by TLC; clone results must be bit-identical.",
         "Settings vector = (prec, dps, pretty, trap_complex). Coupling through module-level caches is C33's business.", "DESIGN.md §4 C38"),
})
CHECKS.update({
 "C04": (EX, TRACE_TECH.replace("MpfPost", "MpcPost") + " (per-component rounding of exact dyadic components; squared-modulus bound for quotients)",
         "Complex +,-,*, z*x, z+x, integer powers, division/reciprocal/negative powers and equality recorded through libmp, operators and f-functions and judged by TLC.",
         TRACE_NOTE + " Operands have finite parts; 'a few ulps' for quotients is fixed at 8.", "DESIGN.md §4 C04"),
 "C14": (EX, "TLC trace validation: exact point results (dyadic/rational, MpiPost) and spec-side series enclosures (RealFun) of sample member points must lie in the returned interval",
         "Interval +,-,*,/,integer powers, abs, neg, sqrt and conversions (int, float, mpf, rational, string forms) judged by TLC for containment of the "
         "exact result of every sampled member-point combination, endpoints included; exp, log, sin, cos, tan, atan2 of intervals judged against enclosures "
         "computed inside the specification (ivfun: a violation only when the enclosure lies wholly outside the returned interval); gamma, rgamma, loggamma, "
         "factorial and real powers judged against the library's own point values at 3p+200 bits (ivrel, relational).",
         TRACE_NOTE + " Two known findings (faithful-only directed rounding under iv.exp and iv.atan2) are keyed by function and by how far outside the value lies "
         "(< 2^-10 ulp, < 2^-3 ulp); anything further outside is reported.", "DESIGN.md §4 C14"),
 "C15": (EX, "TLC trace validation: exact point results and spec-side series enclosures (RealFun: complex exp/cos/sin/log from real enclosures) of sample corner/interior points must lie in the returned rectangle",
         "Rectangle +,-,*,/,integer powers, abs judged by TLC for containment at all corner combinations and further member points; exp, cos, sin, log of rectangles "
         "judged against enclosures computed inside the specification (civfun); gamma, rgamma, loggamma, factorial and complex powers against the library's point values "
         "at 3p+200 bits (civrel, relational).",
         TRACE_NOTE + " Known findings as for C14 (log through atan2, exp/sin/cos through exp and cosh/sinh), keyed by function and distance outside.", "DESIGN.md §4 C15"),
 "C16": (MC, "TLC exhaustive model over all order types of two intervals (IvCmp: transcribed predicates = quantified semantics) + replay of every model pair on the real iv context",
         "IvCmp is complete for order types incl. infinite endpoints; every pair with the spec's verdicts is replayed in several numeric realisations and operand encodings; "
         "operands with more bits than iv.prec are checked for soundness and for exact membership.",
         "Trusted: order-type completeness argument; mp.mpf == interval (mp-context behaviour) is excluded.", "DESIGN.md §4 C16"),
})
CHECKS.update({
 "C33": (MC, "TLC exhaustive cache-protocol models (MatrixLU, PrecCache) + replay of every model history on the real caches (projection and value vs empty caches) + TLC-judged probes after dirty histories vs a fresh process",
         "LUFresh/CopyIndependent/NoStaleHit/AbortSafe model-checked; each printed history is replayed on real matrices, log_int_cache and zeta_int_cache "
         "(slot/precision projection, hit/miss, injected aborts, values vs empty caches); seeded dirty histories of documentation blocks with injected faults are followed by "
         "probe evaluations compared by TLC with a fresh subprocess (2 ulps).",
         "Rounding-level tolerance is 2 ulps for routines not documented as correctly rounded. Constant memos are covered by C17's ConstMemo model and histories. "
         "Caches not individually modelled (bernoulli, gamma/atan/log Taylor tables, quadrature nodes, hypergeometric summators, memoize) are reached through the probes only.",
         "DESIGN.md §4 C33"),
 "C34": (MC, "TLC exhaustive model of the odefun segment table (OdeSeg) + replay of every query history (all orders, aborts, precision changes) on real interpolants",
         "OrderFree model-checked for interior points; every history replayed on three real ODE systems comparing segment counts with the spec and values bit-for-bit with a fresh interpolant; "
         "the rational solution 1/(1+x) is judged exactly by TLC.",
         "Segment boundaries of identical instances are deterministic. At exact boundary points the answering segment depends on history (exhibited by cfg/OdeSeg_boundary, values were bit-identical where tried). "
         "Accuracy for exp/harmonic needs the series oracle (RealFun).", "DESIGN.md §4 C34"),
 "C40": (MC, "TLC model of the hex pickling round trip (Pickle) and CopyIndependent (MatrixLU) + TLC-judged representation identity of pickled/copied values",
         "Every pickle protocol, copy and deepcopy of mpf/mpc values (specials, long mantissas, huge exponents) and copies of mixed matrices: identical raw tuples, same type, equal; mutation independence both ways.",
         "Matrix pickling is not supported by the class and is read as outside the statement (copying of matrices is covered).", "DESIGN.md §4 C40"),
})
CHECKS.update({
 "C07": (EX, "TLC trace validation: the spec parses the literal's bytes (DecPost!DecVal), forms 5^|E| on limbs and checks the rounding cell / side of the result",
         "Literals derived from p-bit grid and tie points (exact decimal expansions truncated or bumped late), random literals, huge exponents and p/q strings through "
         "libmp.from_str (all modes), mpf(str) and iv.mpf(str); correct rounding inside 10^-100..10^100 and wrong-side freedom for every literal.",
         TRACE_NOTE + " The range test is decided conservatively from the digit count.", "DESIGN.md §4 C07"),
 "C08": (EX, "TLC trace validation: printed bytes parsed by the spec; repr round trip (rounding cell of the parsed value) and nearest-n-digit inequalities, exact",
         "repr/str/nstr/to_str of values within a few ulps of n-digit decimals and of midpoints between them, long mantissas, huge exponents, all formatting options.",
         TRACE_NOTE, "DESIGN.md §4 C08"),
})
OBL_TECH = "TLC trace validation of exact rational proof obligations (spec/Oblig.tla: expression trees over the logged inputs/outputs, evaluated on limb rationals)"
OBL_NOTE = ("Trusted: TLC evaluator, ZLimb (refinement-checked), the recorder. Obligations are emitted by the harness from the property's defining formula; "
            "closed forms named in the check's docstring are evaluated by the spec. Seeded sampling.")
CHECKS.update({
 "C22": (EX, OBL_TECH + "; Oblig!HypTerm / Oblig!Ortho as oracles; cross-precision consistency",
         "Terminating hypergeometric series and orthogonal polynomials of integer degree at rational data are compared with exact rational values computed by TLC; "
         "non-terminating cases are judged relationally (values at p and 2p+30 approximate one real number).",
         OBL_NOTE + " The relational part cannot see an error common to both precisions.", "DESIGN.md §4 C22"),
 "C25": (EX, "TLC trace validation against the integer sequences defined by recurrence in spec/Oblig.tla (ExactOrUlp / integer equality)",
         "factorial, fac2, binomial, rf, ff, fib, bernoulli, eulernum, stirling1/2, bell, bernpoly, cyclotomic, primepi, isprime, list_primes, bernfrac and exact=True variants "
         "against exact values computed by TLC from the defining recurrences.",
         OBL_NOTE + " Bernoulli/Euler via the Seidel-Entringer-Arnold triangle; isprime judged up to 4000 by trial division in the spec.", "DESIGN.md §4 C25"),
 "C26": (EX, OBL_TECH + "; Oblig!PolyInt closed forms; relations between outputs",
         "Integrals of polynomials / powers with rational data (1-2 dimensions, three methods, split points) against exact values; reversal, splitting and method-agreement relations.",
         OBL_NOTE + " Exponential/trigonometric/infinite-interval integrands need the series oracle.", "DESIGN.md §4 C26"),
 "C27": (EX, OBL_TECH + "; exact finite sums/products evaluated term by term by TLC",
         "Finite nsum/nprod of rational functions, infinite series/products/limits with rational closed forms through every nsum method, multidimensional finite nsum.",
         OBL_NOTE + " Limits involving pi/log/e need the series oracle.", "DESIGN.md §4 C27"),
 "C28": (EX, OBL_TECH + "; Oblig!PolyDer; Pade order conditions on the returned coefficients",
         "diff/diffs/taylor/partial derivatives of polynomials, difference, differint of monomials, and pade order conditions, all exact.",
         OBL_NOTE + " Order-n numerical derivatives are granted 4n extra bits.", "DESIGN.md §4 C28"),
 "C30": (EX, OBL_TECH + " with untrusted exact-inverse certificates verified by the spec",
         "lu_solve/qr_solve/inverse/det against exact rational results scaled by cond(A) from a certificate that TLC verifies (A*Ainv = I exactly); LU/QR/Cholesky identities and structure; elementwise matrix operations.",
         OBL_NOTE, "DESIGN.md §4 C30"),
 "C31": (EX, OBL_TECH + " (residual identities on returned entries; exact Gauss-Legendre moments)",
         "eigsy/eighe/eig/svd/schur/hessenberg residuals, orthonormality, realness and ordering; Gauss-Legendre rules integrate monomials to degree 2n-1.",
         OBL_NOTE + " Tolerance ||A||*2^(10-p)*n^2.", "DESIGN.md §4 C31"),
})
REL_NOTE = OBL_NOTE + " The relational part (one real number behind the values at two precisions; identities between outputs) is a necessary condition: an error identical at both precisions and commuting with the identities is not detected. Sampling is confined to a moderate argument domain (DESIGN.md 5.2 item 13)."
CHECKS.update({
 "C12": (EX, OBL_TECH + "; algebraic functions judged by exact integer inequalities; transcendental ones relationally (cross-precision, identities)",
         "sqrt/cbrt/root/hypot/complex sqrt by (r(1-eps))^n <= x <= (r(1+eps))^n exactly; every listed elementary function on real/complex arguments incl. cancellation sites by cross-precision consistency "
         "and exact identities between outputs; real-domain rule.", REL_NOTE, "DESIGN.md §4 C12"),
 "C13": (EX, OBL_TECH + " (exact equalities on raw tuples)",
         "exp(0), log(1), ...; roots of constructed perfect powers; sinpi/cospi at huge integers and half-integers; powm1 zeros; finiteness of tan/cot/sec/csc next to k*pi/2; inf/nan table.",
         OBL_NOTE + " pi for atan(inf) is the library's (C17).", "DESIGN.md §4 C13"),
 "C18": (EX, OBL_TECH + "; exact values at integer points; cross-precision consistency and recurrences elsewhere",
         "gamma/factorial/rgamma/harmonic/digamma differences/superfac/hyperfac/barnesg at integers against exact values; poles; SameReal and the shift/beta/loggamma identities at rational and complex arguments.",
         REL_NOTE, "DESIGN.md §4 C18"),
 "C19": (EX, OBL_TECH + "; exact values at rational-valued points; cross-precision consistency and identities elsewhere",
         "zeta(-n), altzeta(-n), polylog at non-positive integer orders exactly; SameReal for the whole family; Hurwitz shift, polylog duplication, |Z(t)| = |zeta(1/2+it)|.",
         REL_NOTE, "DESIGN.md §4 C19"),
 "C20": (EX, OBL_TECH + "; betainc with integer parameters exactly; cross-precision consistency and identities elsewhere",
         "SameReal for erf/erfc (tails)/erfi/erfinv/npdf/ncdf/ei/e1/expint/li/si/ci/shi/chi/fresnel/gammainc variants/betainc; erf+erfc, symmetries, gammainc split, expint recurrence.",
         REL_NOTE, "DESIGN.md §4 C20"),
 "C21": (EX, OBL_TECH + "; three-term recurrences, Airy ODE, zero ordering and sign changes; cross-precision consistency",
         "SameReal for the Bessel/Airy/Struve/Kelvin/Scorer/Coulomb/Anger-Weber/Lommel family and their zeros; recurrences in the order; y'' = x y; zeros increasing with sign change.",
         REL_NOTE, "DESIGN.md §4 C21"),
 "C23": (EX, OBL_TECH + "; exact q-Pochhammer products, AGM sandwich; cross-precision consistency and identities",
         "qp finite products exactly; agm within [sqrt(xy), (x+y)/2], symmetric, homogeneous; Carlson symmetry/homogeneity; Legendre relation; Lambert W defining equation; SameReal for the whole family.",
         REL_NOTE, "DESIGN.md §4 C23"),
 "C29": (EX, OBL_TECH + " (exact residuals of planted-root polynomials; structure of polyroots output)",
         "findroot(verify=True) residual and bracket containment for every solver; mnewton on multiple roots; multiplicity; polyroots count, residual vs error estimate, real-first and adjacent-conjugate order.",
         OBL_NOTE, "DESIGN.md §4 C29"),
 "C32": (EX, OBL_TECH + " (residual identities between matrix-function outputs)",
         "expm(logm A) = A, sqrtm(A)^2 = A, powm = A**k, cosm^2 + sinm^2 = I, expm methods agree, expm of diagonal matrices.", OBL_NOTE + " Tolerance ||A||*2^(10-p)*4n^2.", "DESIGN.md §4 C32"),
 "C35": (EX, OBL_TECH + " (relations re-checked against the inputs without square roots)",
         "pslq vectors: integer, nonzero, below maxcoeff, (sum c x)^2 <= tol^2 sum x^2; planted relations must be found; findpoly degree and residual.", OBL_NOTE + " identify() is not judged.", "DESIGN.md §4 C35"),
 "C36": (EX, OBL_TECH + " (recovered coefficients vs planted rational/integer coefficients)",
         "chebyfit of polynomials of degree < N and its error bound; fourier of trigonometric polynomials; fourierval at 0.", OBL_NOTE, "DESIGN.md §4 C36"),
 "C41": (EX, OBL_TECH + "; ten anchored zero ordinates as spec constants; ordering/counting relations beyond",
         "zetazero(n<=10) inside 6-decimal enclosures with real part exactly 1/2; conjugates; increasing ordinates; nzeros consistency; siegelz sign change; gram points; backlunds.",
         OBL_NOTE + " Beyond index 10 a consistent shift of zetazero and nzeros is invisible.", "DESIGN.md §4 C41"),
 "C42": (EX, OBL_TECH + " (exact polynomial inverses; exp/sin/cos inverses against the spec's own series enclosures (RealFun) at dyadic arguments, against the library at higher precision otherwise)",
         "1/p^k <-> t^(k-1)/(k-1)! for the three methods within 10^(3-dps/2); exp/sin/cos inverses for talbot and dehoog, anchored to RealFun when a*t is dyadic; oscillatory inverses only for a*t <= 0.3 dps (documented limitation of the contour methods).", OBL_NOTE, "DESIGN.md §4 C42"),
 "C43": (EX, OBL_TECH + " (fp double vs mp 53-bit value as exact dyadics)",
         "Result types, principal complex values outside real domains, agreement to 2^-48 relative or 2^-300 absolute for every elementary function over all double magnitude classes.",
         OBL_NOTE + " Agreement is relative to mp, as the property is stated.", "DESIGN.md §4 C43"),
})
CHECKS.update({
 "C24": (MC, "TLC liveness check of the retry/summation loop skeletons (LoopSkel, weak fairness) + TLC-judged call exits of real executions under a deterministic work budget",
         "LoopSkel: hypsum/hypercomb and mpf_psi0 loops terminate structurally for every outcome of the numerics; the unguarded complex digamma loop does not (expected lasso). "
         "Documentation statements are executed at the documented scale (function evaluations also at raised precision) under a budget of kernel-function starts counted by sys.monitoring; "
         "each exit (return / documented exception / budget overrun) is judged by TLC.",
         "Bounded observation: a work budget (8x retry) stands in for 'bounded amount of computation'; a correct implementation needing more would be flagged. Calculus routines are exercised at the documented scale only.",
         "DESIGN.md §4 C24"),
 "C37": (EX, "differential execution of one seeded operation stream under the python backend and under a pure-Python gmpy2 shim; outcomes compared and judged by TLC against the operation postconditions",
         "mpmath's own backend-conditional code paths (gmpy_mpf_mul, gmpy_mpf_mul_int, bitcount/trailing, numeral, isqrt/ifac aliases, cutoffs) are executed through a shim and must give identical raw tuples to the python backend "
         "and satisfy the C02/C03/C05/C06/C09 postconditions; elementary functions within 1 ulp.",
         "gmpy2 itself is not installed and cannot be fetched: the C library half of the property is not exercised; the shim reproduces only gmpy2's Python-visible semantics.", "DESIGN.md §4 C37"),
})

ALL = ["C%02d" % i for i in range(1, 44)]
NOT_APPLICABLE = {
}


def build():
    checks = []
    for pid in sorted(CHECKS):
        level, tech, text, note, ref = CHECKS[pid]
        checks.append({
            "property_id": pid,
            "quick_cmd": "bin/check %s --tier quick" % pid,
            "thorough_cmd": "bin/check %s --tier thorough" % pid,
            "evidence_file": "/verif/evidence/%s.json" % pid,
            "replay_cmd_template": "bin/check %s --replay {path}" % pid,
            "engine": "tlc",
            "level_claimed": {"category": level, "text": text, "design_ref": ref},
            "level_note": note,
            "technique": tech,
        })
    na = []
    for pid in ALL:
        if pid not in CHECKS:
            na.append({"property_id": pid, "reason": NOT_APPLICABLE.get(pid, "no check registered yet in this revision (see DESIGN.md §9 build order)")})
    man = {
        "version": 1,
        "setup_cmd": "true",
        "hooks": {"guard": "MPMATH_VERIF", "enable": "no build step: checks import mpmath from /repo's working tree; MPMATH_VERIF=1 turns on the guarded hooks (none yet)",
                  "baseline_off_cmd": BASELINE_OFF, "source_commits": [], "add_only": True},
        "engines": [{"name": "tlc", "path": "/verif/spec", "serves_properties": sorted(CHECKS),
                     "kind_free_text": "TLA+ specifications checked by TLC 1.8 (exhaustive small-scope models; trace validation of recorded calls; spec-to-code replay)"}],
        "checks": checks,
        "notes": "Model-based verification with explicit TLA+ specifications; see DESIGN.md.",
        "not_applicable": na,
    }
    with open(os.path.join(VERIF, "MANIFEST.json"), "w") as fh:
        json.dump(man, fh, indent=1)
    return man


if __name__ == "__main__":
    m = build()
    print("MANIFEST.json: %d checks, %d not claimed" % (len(m["checks"]), len(m["not_applicable"])))
