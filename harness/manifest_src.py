"""Builds /verif/MANIFEST.json from the table below (python -m harness.manifest_src)."""
import json, os

VERIF = os.path.dirname(os.path.dirname(os.path.abspath(__file__)))
BASELINE_OFF = ("cd /repo && /venv/bin/python -m pytest -ra -q -p no:cacheprovider --timeout=900 "
                "--continue-on-collection-errors")

MC = "model_checking"
EX = "exploration"

# id -> (level, technique, text, note, design_ref)
CHECKS = {
 "C02": (MC, "TLA+ rounding oracle (Exact/MpfPost) model-checked in small scope + TLC trace validation of recorded calls on limb integers",
         "RoundingLemmas (TLC, exhaustive small universe) ties the checker/functional forms of the rounding oracle together; "
         "every recorded call of add/sub/mul/div/sqrt/neg/abs/pos/constructors/fsum/fdot through four entry levels is judged by TLC "
         "against MpfPost in exact limb arithmetic (total verdicts).",
         "Trusted: TLC evaluator, CommunityModules Json, ZLimb (refinement-checked by ZLimbCheck), the recorder's encoder. "
         "Exponents beyond 2^30 are not encoded. Sampling at real sizes is seeded, not exhaustive.", "DESIGN.md §4 C02"),
}

ALL = ["C%02d" % i for i in range(1, 44)]
NOT_APPLICABLE = {
}


def build():
    checks = []
    for pid in sorted(CHECKS):
        level, tech, text, note, ref = CHECKS[pid]
        checks.append({
            "property_id": pid,
            "quick_cmd": "bin/check %s --tier quick" % pid,
            "thorough_cmd": "bin/check %s --tier thorough" % pid,
            "evidence_file": "/verif/evidence/%s.json" % pid,
            "replay_cmd_template": "bin/check %s --replay {path}" % pid,
            "engine": "tlc",
            "level_claimed": {"category": level, "text": text, "design_ref": ref},
            "level_note": note,
            "technique": tech,
        })
    na = []
    for pid in ALL:
        if pid not in CHECKS:
            na.append({"property_id": pid, "reason": NOT_APPLICABLE.get(pid, "no check registered yet in this revision (see DESIGN.md §9 build order)")})
    man = {
        "version": 1,
        "setup_cmd": "true",
        "hooks": {"guard": "MPMATH_VERIF", "enable": "no build step: checks import mpmath from /repo's working tree; MPMATH_VERIF=1 turns on the guarded hooks (none yet)",
                  "baseline_off_cmd": BASELINE_OFF, "source_commits": [], "add_only": True},
        "engines": [{"name": "tlc", "path": "/verif/spec", "serves_properties": sorted(CHECKS),
                     "kind_free_text": "TLA+ specifications checked by TLC 1.8 (exhaustive small-scope models; trace validation of recorded calls; spec-to-code replay)"}],
        "checks": checks,
        "notes": "Model-based verification with explicit TLA+ specifications; see DESIGN.md.",
        "not_applicable": na,
    }
    with open(os.path.join(VERIF, "MANIFEST.json"), "w") as fh:
        json.dump(man, fh, indent=1)
    return man


if __name__ == "__main__":
    m = build()
    print("MANIFEST.json: %d checks, %d not claimed" % (len(m["checks"]), len(m["not_applicable"])))
