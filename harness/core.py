"""Check plumbing: tiers/seeds, violation reporting against known_findings.json, evidence files.

Exit codes of every check: 0 = property held on everything explored (known findings are
printed as KNOWN-FINDING lines), 1 = at least one VIOLATION not listed in known_findings.json,
2 = machinery failure (TLC crash, trace not consumed, vacuity guard) -- never a verdict."""
import hashlib, json, os, re, sys, time, traceback

VERIF = os.path.dirname(os.path.dirname(os.path.abspath(__file__)))
REPO = os.environ.get("VERIF_REPO", "/repo")
EVID = os.environ.get("VERIF_EVIDENCE_DIR") or os.path.join(VERIF, "evidence")
REPLAYS = os.path.join(VERIF, "replays")
KNOWN = os.path.join(VERIF, "known_findings.json")


def use_repo():
    """Import mpmath from /repo's working tree (never from a cached copy)."""
    os.environ.setdefault("MPMATH_NOGMPY", "1")
    if REPO not in sys.path:
        sys.path.insert(0, REPO)
    for k in list(sys.modules):
        if k == "mpmath" or k.startswith("mpmath."):
            del sys.modules[k]
    import mpmath
    assert os.path.abspath(mpmath.__file__).startswith(os.path.abspath(REPO)), mpmath.__file__
    return mpmath


def load_known():
    if not os.path.exists(KNOWN):
        return []
    with open(KNOWN) as fh:
        return json.load(fh)["findings"]


class Check:
    def __init__(self, prop, level, tier=None, seed=None):
        self.prop = prop
        self.level = level
        self.tier = tier or os.environ.get("VERIF_TIER") or "quick"
        if self.tier not in ("quick", "thorough"):
            self.tier = "quick"
        self.seed = int(seed if seed is not None else os.environ.get("VERIF_SEED", "0") or 0)
        self.t0 = time.time()
        self.cov = {"evaluations": 0, "distinct_nontrivial": 0, "rule": "", "samples": []}
        self.assumptions = []
        self.violations = []          # (key, what, replay_path)
        self.known_hits = {}          # key -> count
        self.notes = []
        self.known = [k for k in load_known() if k["property"] == prop]
        self._distinct = set()

    @property
    def quick(self):
        return self.tier == "quick"

    def pick(self, quick, thorough):
        return quick if self.quick else thorough

    # ---- coverage accounting -------------------------------------------------
    def count(self, n=1):
        self.cov["evaluations"] += n

    def distinct(self, key, nontrivial=True):
        if nontrivial:
            h = hashlib.blake2b(repr(key).encode(), digest_size=8).digest()
            self._distinct.add(h)

    def sample(self, obj, cap=8):
        if len(self.cov["samples"]) < cap:
            self.cov["samples"].append(obj)

    def add_model(self, res, name):
        """Account a TLC exhaustive/simulation run (dict from tlc.run_model)."""
        self.cov["states"] = self.cov.get("states", 0) + res["distinct"]
        self.cov["transitions"] = self.cov.get("transitions", 0) + res["states"]
        self.cov.setdefault("models", []).append(
            {"model": name, "distinct_states": res["distinct"], "states_generated": res["states"],
             "depth": res["depth"], "wall_s": round(res.get("wall_s", 0), 1)})

    def add_traces(self, n):
        self.cov["traces_validated_against_impl"] = self.cov.get("traces_validated_against_impl", 0) + n

    # ---- verdicts -------------------------------------------------------------
    def match_known(self, key):
        for k in self.known:
            if k.get("status") == "known" and re.fullmatch(k["key"], key):
                return k
        return None

    def violation(self, key, what, replay):
        """key: '<site>/<clause>/<coarse signature>'; replay: JSON-able object."""
        k = self.match_known(key)
        if k is not None:
            self.known_hits[k["key"]] = self.known_hits.get(k["key"], 0) + 1
            return False
        os.makedirs(os.path.join(REPLAYS, self.prop), exist_ok=True)
        h = hashlib.blake2b(json.dumps(replay, sort_keys=True, default=str).encode(), digest_size=6).hexdigest()
        path = os.path.join(REPLAYS, self.prop, "%s.json" % h)
        with open(path, "w") as fh:
            json.dump({"property": self.prop, "key": key, "what": what, "replay": replay}, fh, default=str)
        nkey = sum(1 for v in self.violations if v[0] == key)
        if nkey < 3:
            print("VIOLATION property=%s replay=%s" % (self.prop, path))
            print("  key=%s %s" % (key, what))
        self.violations.append((key, what, path))
        return True

    def known_line(self, entry, still_fails, detail=""):
        if still_fails:
            print("KNOWN-FINDING: property=%s %s [%s]%s" % (self.prop, entry["what"], entry["key"], detail))
        else:
            print("NOTE: known finding %s no longer reproduces on its pinned representative "
                  "(candidate for status fixed)" % entry["key"])

    def machinery(self, msg):
        print("MACHINERY-FAILURE property=%s: %s" % (self.prop, msg))
        self.write_evidence(extra={"machinery_failure": msg})
        sys.exit(2)

    # ---- evidence ---------------------------------------------------------------
    def write_evidence(self, extra=None):
        os.makedirs(EVID, exist_ok=True)
        cov = dict(self.cov)
        cov["distinct_nontrivial"] = max(cov.get("distinct_nontrivial", 0), len(self._distinct))
        if not cov["samples"]:
            cov["samples"] = ["(no sample recorded)"]
        cov["known_finding_hits"] = self.known_hits
        if self.notes:
            cov["notes"] = self.notes
        if extra:
            cov.update(extra)
        ev = {"property_id": self.prop, "tier": self.tier, "seed": self.seed, "level": self.level,
              "coverage": cov, "assumptions": self.assumptions,
              "wall_s": round(time.time() - self.t0, 2), "violations": len(self.violations)}
        with open(os.path.join(EVID, "%s.json" % self.prop), "w") as fh:
            json.dump(ev, fh, indent=1, default=str)

    def finish(self):
        self.write_evidence()
        n = len(self.violations)
        keys = {}
        for k, _, _ in self.violations:
            keys[k] = keys.get(k, 0) + 1
        for k, cnt in sorted(keys.items()):
            print("  violations[%s] = %d" % (k, cnt))
        print("%s tier=%s seed=%d evaluations=%d distinct_nontrivial=%d violations=%d known_hits=%s wall=%.1fs" % (
            self.prop, self.tier, self.seed, self.cov["evaluations"],
            max(self.cov.get("distinct_nontrivial", 0), len(self._distinct)), n,
            sum(self.known_hits.values()), time.time() - self.t0))
        sys.exit(1 if n else 0)


def main_wrapper(fn):
    """Run a check body; convert MachineryError / unexpected exceptions into exit 2."""
    from . import tlc
    try:
        fn()
    except SystemExit:
        raise
    except tlc.MachineryError as e:
        print("MACHINERY-FAILURE: %s" % e)
        sys.exit(2)
    except Exception:
        traceback.print_exc()
        print("MACHINERY-FAILURE: unexpected exception in harness")
        sys.exit(2)
