"""Builders for the exact expression trees / judgements evaluated by spec/Oblig.tla."""
import fractions
from . import enc


def Z(n):
    n = int(n)
    return {"t": "z", "s": 1 if n < 0 else 0, "m": enc.limbs(abs(n))}


def I(n):
    return {"t": "i", "v": enc.native(n)}


def Fm(t):
    """raw mpf tuple (finite or zero)"""
    s, m, e, bc = t
    if m == 0 and e != 0:
        raise ValueError("non-finite value in an exact expression")
    if abs(e) > 20000:
        raise ValueError("exponent too large to materialise in an exact rational expression")
    return {"t": "f", "s": int(s), "m": enc.limbs(m), "e": enc.native(e), "bc": enc.native(bc)}


def Qf(x):
    x = fractions.Fraction(x)
    return {"t": "q", "s": 1 if x < 0 else 0, "n": enc.limbs(abs(x.numerator)), "d": enc.limbs(x.denominator)}


def val(x):
    """python number / mpf object / raw tuple / expression -> expression"""
    if isinstance(x, dict):
        return x
    if isinstance(x, bool):
        return Z(int(x))
    if isinstance(x, int):
        return Z(x)
    if isinstance(x, fractions.Fraction):
        return Qf(x)
    if isinstance(x, float):
        return Qf(fractions.Fraction(x))
    if isinstance(x, tuple):
        return Fm(x)
    if hasattr(x, "_mpf_"):
        return Fm(x._mpf_)
    raise TypeError(type(x))


_DEFS = []


def R(e):
    """share a subexpression: it is evaluated once per event (node ref) -- use for anything referenced more than once"""
    e = val(e)
    if e.get("t") in ("ref", "z", "i", "f", "q"):
        return e
    _DEFS.append(e)
    return {"t": "ref", "i": len(_DEFS) - 1}


def take_defs():
    d = list(_DEFS)
    del _DEFS[:]
    return d


def add(*a): return {"t": "add", "a": [val(x) for x in a]}
def mul(*a): return {"t": "mul", "a": [val(x) for x in a]}
def mx(*a): return {"t": "max", "a": [val(x) for x in a]}
def mn(*a): return {"t": "min", "a": [val(x) for x in a]}
def sub(x, y): return {"t": "sub", "a": [val(x), val(y)]}
def div(x, y): return {"t": "div", "a": [val(x), val(y)]}
def neg(x): return {"t": "neg", "a": [val(x)]}
def ab(x): return {"t": "abs", "a": [val(x)]}
def sq(x): return {"t": "sq", "a": [val(x)]}          # evaluated once by the spec (sq node), no duplication
def powi(x, n): return {"t": "pow", "a": [val(x)], "n": enc.native(n)}
def pow2(n): return {"t": "pow2", "n": enc.native(n)}
def poly(cs, x): return {"t": "poly", "c": [val(c) for c in cs], "x": val(x)}      # cs low -> high
K = {"t": "k"}
def sumk(lo, hi, body): return {"t": "sumk", "lo": enc.native(lo), "hi": enc.native(hi), "body": val(body)}
def prodk(lo, hi, body): return {"t": "prodk", "lo": enc.native(lo), "hi": enc.native(hi), "body": val(body)}
def seqn(name, n): return {"t": name, "n": enc.native(n)}
def seqnk(name, n, k): return {"t": name, "n": enc.native(n), "k": enc.native(k)}

def hypterm(as_, bs, z, n): return {"t": "hypterm", "as": [val(a) for a in as_], "bs": [val(b) for b in bs], "z": val(z), "n": enc.native(n)}
def ortho(fam, n, x, par=0): return {"t": "ortho", "fam": fam, "n": enc.native(n), "x": val(x), "par": val(par)}
def polyint(cs, a, b): return {"t": "polyint", "c": [val(c) for c in cs], "a": [val(a), val(b)]}
def polyder(cs, x, n): return {"t": "polyder", "c": [val(c) for c in cs], "x": val(x), "n": enc.native(n)}

def le(a, b): return {"j": "le", "a": val(a), "b": val(b)}
def lt(a, b): return {"j": "lt", "a": val(a), "b": val(b)}
def eq(a, b): return {"j": "eq", "a": val(a), "b": val(b)}
def allj(*js): return {"j": "all", "js": list(js)}
def anyj(*js): return {"j": "any", "js": list(js)}


def rel_close(r, v, tolbits, p):
    """|r - v| <= 2^(tolbits - p) |v|"""
    return le(ab(sub(r, v)), mul(pow2(tolbits - p), ab(v)))


def abs_close(r, v, tolbits, p):
    return le(ab(sub(r, v)), pow2(tolbits - p))


def rel0_close(r, v, tolbits, p):
    """relative closeness; when the exact value is zero, |r| <= 2^(tolbits-p)"""
    v = R(v)
    return anyj(rel_close(r, v, tolbits, p), allj(eq(v, 0), abs_close(r, 0, tolbits, p)))


def relabs_close(r, v, tolbits, p):
    return anyj(rel_close(r, v, tolbits, p), abs_close(r, v, tolbits, p))


# complex numbers as pairs of expressions
def c_of(z):
    if hasattr(z, "_mpc_"):
        return (Fm(z._mpc_[0]), Fm(z._mpc_[1]))
    if isinstance(z, complex):
        return (val(z.real), val(z.imag))
    if isinstance(z, tuple) and len(z) == 2 and isinstance(z[0], (dict,)):
        return z
    return (val(z), Z(0))

def cadd(z, w): z, w = c_of(z), c_of(w); return (add(z[0], w[0]), add(z[1], w[1]))
def csub(z, w): z, w = c_of(z), c_of(w); return (sub(z[0], w[0]), sub(z[1], w[1]))
def cmul(z, w):
    z, w = c_of(z), c_of(w)
    z = (R(z[0]), R(z[1])); w = (R(w[0]), R(w[1]))          # each part is used twice: share it
    return (sub(mul(z[0], w[0]), mul(z[1], w[1])), add(mul(z[0], w[1]), mul(z[1], w[0])))
def cnorm2(z): z = c_of(z); return add(sq(R(z[0])), sq(R(z[1])))
def cpoly(cs, z):
    """Horner with complex coefficients/argument, cs low -> high"""
    acc = (Z(0), Z(0))
    z = c_of(z); z = (R(z[0]), R(z[1]))
    for c in reversed(list(cs)):
        acc = cadd(cmul(acc, z), c)
        acc = (R(acc[0]), R(acc[1]))
    return acc

def c_rel_close(r, v, tolbits, p):
    """|r - v|^2 <= 2^(2(tolbits-p)) |v|^2"""
    return le(cnorm2(csub(r, v)), mul(pow2(2 * (tolbits - p)), cnorm2(v)))


def oblig_event(id_, judgement, p=0, **meta):
    return enc.event(id_, "oblig", [], p, "n", enc.sym("none"), pb=0, x={"j": judgement})


# ---- small dense linear algebra on expression trees (lists of lists) -------------------------------
def mat_of(M, complex_ok=False):
    """mpmath matrix -> list of rows of expressions (real matrices only unless complex_ok)"""
    rows = []
    for i in range(M.rows):
        row = []
        for j in range(M.cols):
            x = M[i, j]
            if hasattr(x, "_mpc_"):
                if not complex_ok:
                    raise ValueError("complex entry")
                row.append(c_of(x))
            else:
                row.append(val(x) if not complex_ok else (val(x), Z(0)))
        rows.append(row)
    return rows


def matmul(A, B):
    n, m, k = len(A), len(B[0]), len(B)
    return [[R(add(*[mul(A[i][t], B[t][j]) for t in range(k)])) for j in range(m)] for i in range(n)]


def matsub(A, B):
    return [[R(sub(a, b)) for a, b in zip(ra, rb)] for ra, rb in zip(A, B)]


def transpose(A):
    return [list(r) for r in zip(*A)]


def ident(n):
    return [[Z(1 if i == j else 0) for j in range(n)] for i in range(n)]


def maxabs(A):
    return R(mx(*[ab(x) for r in A for x in r]))


def norminf(A):
    """max absolute row sum"""
    return R(mx(*[add(*[ab(x) for x in r]) for r in A]))


def cmatmul(A, B):
    n, m, k = len(A), len(B[0]), len(B)
    out = []
    for i in range(n):
        row = []
        for j in range(m):
            acc = (Z(0), Z(0))
            for t in range(k):
                acc = cadd(acc, cmul(A[i][t], B[t][j]))
            row.append((R(acc[0]), R(acc[1])))
        out.append(row)
    return out


def cmatsub(A, B):
    return [[tuple(R(v) for v in csub(a, b)) for a, b in zip(ra, rb)] for ra, rb in zip(A, B)]


def cmaxabs2(A):
    """max squared modulus"""
    return R(mx(*[cnorm2(x) for r in A for x in r]))


def cconjT(A):
    return [[(A[j][i][0], neg(A[j][i][1])) for j in range(len(A))] for i in range(len(A[0]))]
