"""Binding self-tests (DESIGN 3.4): a trace specification that accepts corrupted traces, or a model whose invariants
survive a mutated constant, binds nothing.  Failures are machinery failures (exit 2), never verdicts about mpmath."""
import copy
from . import tlc, arith, gen, enc


def corrupt_arith(chk, runner, n=40):
    """good libmp-level events of add/sub/mul/div/sqrt; then (a) low mantissa bit of the result flipped, (b) the result
    written non-canonically (mantissa doubled, exponent decremented), (c) the claimed precision lowered below the result's
    bit count.  TLC must accept the originals and flag every corruption with the right clause."""
    g = gen.G(chk.seed * 7 + 424242)
    cs = [c for c in arith.group_c02(g, 6 * n) if c["lvl"] == "libmp" and c["op"] in ("add", "sub", "mul", "div", "sqrt") and c["p"] >= 4][:n]
    events, byid, dropped = arith.record(cs, runner)
    good = [e for e in events if e["o"]["k"] == "f" and e["o"]["m"] and e["o"]["bc"] >= 3]
    base = tlc.judge(good, tag="selftest0")
    good = [e for e in good if e["id"] not in base]
    if len(good) < n // 4:
        chk.machinery("binding self-test: too few accepted events to corrupt (%d)" % len(good))
    mutants, want = [], {}
    for e in good:
        for kind in ("flip", "noncanon", "bits"):
            m = copy.deepcopy(e)
            m["id"] = len(mutants)
            o = m["o"]
            if kind == "flip":
                o["m"][0] ^= 2                                   # second-lowest bit: the mantissa stays odd, the value changes
                want[m["id"]] = "post"
            elif kind == "noncanon":
                val = 0
                for k, limb in enumerate(o["m"]):
                    val |= limb << (10 * k)
                o["m"] = enc.limbs(val << 1); o["e"] -= 1; o["bc"] += 1
                want[m["id"]] = "canon"
            else:
                m["pb"] = max(1, o["bc"] - 1)
                want[m["id"]] = "bits"
            mutants.append(m)
    bad = tlc.judge(mutants, tag="selftest1")
    missed = [(i, w) for i, w in want.items() if w not in bad.get(i, [])]
    if missed:
        chk.machinery("binding self-test: %d of %d corrupted events were accepted by the trace specification (first: %r)" % (len(missed), len(mutants), missed[0]))
    chk.notes.append("binding self-test: %d accepted events, %d corrupted copies (flipped bit / non-canonical / too many bits) all rejected with the expected clause" % (len(good), len(mutants)))
    return len(mutants)


def model_mutants(chk, runs):
    """runs: (module, cfg, expected violated invariant): the mutated constant must be refuted"""
    for module, cfg, inv in runs:
        r = tlc.run_model(module, cfg, timeout=900)
        if r["violated"] != inv:
            chk.machinery("vacuity guard: %s/%s was expected to violate %s but TLC reported %r" % (module, cfg, inv, r["violated"]))
        chk.notes.append("vacuity guard: %s with a mutated constant violates %s as expected" % (cfg, inv))
