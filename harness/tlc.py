"""Running TLC: exhaustive models (M1), simulation, and trace judging (M3)."""
import json, os, re, shutil, subprocess, tempfile, time, sys

VERIF = os.path.dirname(os.path.dirname(os.path.abspath(__file__)))
SPEC = os.path.join(VERIF, "spec")
CFG = os.path.join(VERIF, "cfg")
JARS = "/opt/veriftools/tla/tla2tools.jar:/opt/veriftools/tla/CommunityModules-deps.jar"
NCPU = os.cpu_count() or 4


def _die_with_parent():
    """child JVMs get SIGKILL when the check process dies (no stray TLC after an outer timeout)"""
    try:
        import ctypes
        ctypes.CDLL("libc.so.6").prctl(1, 9)
    except Exception:
        pass


class MachineryError(Exception):
    """TLC crashed / trace not consumed / vacuity guard: exit code 2, never a violation."""


def _java(xss="512m", heap=None, gcthreads=None):
    cmd = ["java", "-XX:+UseParallelGC", "-Xss" + xss]
    if gcthreads:
        cmd.append("-XX:ParallelGCThreads=%d" % gcthreads)
    if heap:
        cmd.append("-Xmx" + heap)
    cmd += ["-cp", JARS, "tlc2.TLC"]
    return cmd


def workdir(tag):
    base = os.environ.get("VERIF_TMP") or tempfile.gettempdir()
    d = tempfile.mkdtemp(prefix="verif_%s_" % tag, dir=base)
    return d


def run_model(module, cfg, workers=NCPU, extra=(), timeout=3600, coverage=False, tag="m1", heap=None):
    """Run TLC exhaustively on spec/<module>.tla with cfg/<cfg>. Returns dict with
    states, distinct, depth, ok, violated (name or None), output."""
    wd = workdir(tag)
    try:
        cmd = _java(heap=heap) + ["-workers", str(workers), "-metadir", os.path.join(wd, "meta"),
                         "-noGenerateSpecTE", "-config", os.path.join(CFG, cfg)]
        if coverage:
            cmd += ["-coverage", "1"]
        cmd += list(extra) + [os.path.join(SPEC, module + ".tla")]
        t0 = time.time()
        pr = subprocess.run(cmd, cwd=wd, capture_output=True, text=True, timeout=timeout, preexec_fn=_die_with_parent)
        out = pr.stdout + pr.stderr
        res = parse_model_output(out)
        res["wall_s"] = time.time() - t0
        res["cmd"] = " ".join(cmd)
        return res
    finally:
        shutil.rmtree(wd, ignore_errors=True)


def parse_model_output(out):
    res = {"output": out, "violated": None, "ok": False, "states": 0, "distinct": 0, "depth": 0}
    m = re.search(r"(\d+) states generated, (\d+) distinct states found", out)
    if m:
        res["states"] = int(m.group(1)); res["distinct"] = int(m.group(2))
    m = re.search(r"depth of the complete state graph search is (\d+)", out)
    if m:
        res["depth"] = int(m.group(1))
    m = re.search(r"Error: Invariant (\S+) is violated", out)
    if m:
        res["violated"] = m.group(1)
    m2 = re.search(r"Error: Action property (\S+) is violated", out)
    if m2:
        res["violated"] = m2.group(1)
    if re.search(r"Temporal propert(y|ies) .*violated", out):
        res["violated"] = res["violated"] or "temporal"
    if "Model checking completed. No error has been found." in out:
        res["ok"] = True
    elif res["violated"] is None:
        res["error"] = True
    return res


def parse_tuples(out, tag):
    """Extract TLC-printed tuples <<"TAG", ...>> by bracket matching (16-worker output may
    interleave lines). Returns list of raw strings."""
    res = []
    key = re.compile(r'<<\s*"%s"' % re.escape(tag))
    pos = 0
    while True:
        mk = key.search(out, pos)
        if mk is None:
            break
        k = mk.start()
        depth = 0
        j = k
        while j < len(out):
            if out.startswith("<<", j):
                depth += 1; j += 2; continue
            if out.startswith(">>", j):
                depth -= 1; j += 2
                if depth == 0:
                    break
                continue
            j += 1
        res.append(out[k:j])
        pos = j
    return res


def judge_shard(path, module="TraceJudge", cfg="TraceJudge.cfg", timeout=3600, xss="900m"):
    """Run the trace specification over one ndjson file. Returns (n_events, bad: {id: [clauses]})."""
    wd = workdir("tr")
    try:
        cmd = _java(xss=xss, heap="3g", gcthreads=2) + ["-workers", "1", "-metadir", os.path.join(wd, "meta"), "-noGenerateSpecTE",
                         "-config", os.path.join(CFG, cfg), os.path.join(SPEC, module + ".tla")]
        env = dict(os.environ)
        env["TRACE_FILE"] = path
        pr = subprocess.run(cmd, cwd=wd, capture_output=True, text=True, timeout=timeout, env=env, preexec_fn=_die_with_parent)
        out = pr.stdout + pr.stderr
        if "Model checking completed. No error has been found." not in out:
            lines = out.splitlines()
            errs = [i for i, ln in enumerate(lines) if ln.startswith("Error")]
            tail = "\n".join(lines[errs[0]:errs[0] + 25]) if errs else "\n".join(lines[-40:])
            raise MachineryError("TLC did not accept trace %s:\n%s" % (path, tail))
        bad = {}
        for tup in parse_tuples(out, "BAD"):
            m = re.match(r'<<"BAD",\s*(-?\d+),\s*\{(.*)\}>>', tup, re.S)
            if not m:
                raise MachineryError("unparsable verdict " + tup)
            bad[int(m.group(1))] = re.findall(r'"([^"]+)"', m.group(2))
        return bad
    finally:
        shutil.rmtree(wd, ignore_errors=True)


def judge(events, shards=NCPU, tag="ev", module="TraceJudge", cfg="TraceJudge.cfg", timeout=3600):
    """Judge a list of event dicts with TLC, sharded over processes. Returns {id: [clauses]}."""
    from concurrent.futures import ThreadPoolExecutor
    if not events:
        return {}
    shards = max(1, min(shards, (len(events) + 49) // 50))
    wd = workdir(tag)
    try:
        paths = []
        for k in range(shards):
            pth = os.path.join(wd, "shard%d.ndjson" % k)
            with open(pth, "w") as fh:
                for ev in events[k::shards]:
                    fh.write(json.dumps(ev, separators=(",", ":")) + "\n")
            paths.append(pth)
        bad = {}
        with ThreadPoolExecutor(max_workers=shards) as ex:
            for res in ex.map(lambda p: judge_shard(p, module, cfg, timeout), paths):
                bad.update(res)
        return bad
    finally:
        shutil.rmtree(wd, ignore_errors=True)
