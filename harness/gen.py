"""Biased operand generators (seeded).  The shapes are the ones the libmp algorithms branch
on: mantissas much longer than the precision, runs of ones/zeros, near-ties, exponent gaps
around the far-exponent threshold (100) and the prec+4 guard, huge/tiny exponents, specials."""
import random

FZERO = (0, 0, 0, 0)
FINF = (0, 0, -456, -2)
FNINF = (1, 0, -789, -3)
FNAN = (0, 0, -123, -1)
SPECIALS = [FZERO, FINF, FNINF, FNAN]
MODES = "nfcdu"


def mk(man, exp):
    """canonical raw tuple of man*2^exp (harness-side encoding, independent of libmp)"""
    if man == 0:
        return FZERO
    s = 1 if man < 0 else 0
    man = abs(man)
    t = (man & -man).bit_length() - 1
    man >>= t
    return (s, man, exp + t, man.bit_length())


def value(t):
    """exact value of a finite raw tuple as (signed man, exp)"""
    s, m, e, bc = t
    return (-m if s else m, e)


class G:
    def __init__(self, seed):
        self.r = random.Random(seed)

    def prec(self, big=False):
        r = self.r
        c = r.random()
        if c < 0.25:
            return r.randint(1, 8)
        if c < 0.55:
            return r.choice([10, 24, 52, 53, 54, 64, 100, 113])
        if c < 0.9 or not big:
            return r.randint(9, 200)
        return r.randint(200, 1500)

    def mode(self):
        return self.r.choice(MODES)

    def bits(self, p):
        r = self.r
        c = r.random()
        if c < 0.15:
            return r.randint(1, 4)
        if c < 0.45:
            return max(1, p + r.randint(-2, 2))
        if c < 0.6:
            return r.randint(1, max(1, p))
        if c < 0.8:
            return p + r.randint(1, 2 * p + 10)
        if c < 0.95:
            return r.randint(1, 400)
        return r.randint(400, 2500)

    def mant(self, nbits, p):
        """positive mantissa with exactly nbits bits, shaped"""
        r = self.r
        if nbits <= 1:
            return 1
        c = r.random()
        top = 1 << (nbits - 1)
        if c < 0.3:
            m = top | r.getrandbits(nbits - 1)
        elif c < 0.4:
            m = (1 << nbits) - 1                       # all ones
        elif c < 0.5:
            m = top | 1                                # 100...001
        elif c < 0.6:
            m = (1 << nbits) - 1 - r.getrandbits(max(1, nbits // 3))
        elif c < 0.85 and nbits > p + 1:
            # near-tie at precision p: kept part, then 0111.. / 1000.. / 1000..01 patterns
            k = nbits - p
            hi = (1 << (p - 1)) | r.getrandbits(p - 1) if p > 1 else 1
            half = 1 << (k - 1)
            tail = r.choice([half, half - 1, half + 1, 0, 1, (1 << k) - 1,
                             half + (1 << r.randrange(k)) if k > 1 else half])
            m = (hi << k) | (tail & ((1 << k) - 1))
        else:
            m = top | (r.getrandbits(nbits - 1) & ~((1 << r.randrange(nbits)) - 1))
        return m | top

    def exp(self):
        r = self.r
        c = r.random()
        if c < 0.5:
            return r.randint(-60, 60)
        if c < 0.8:
            return r.randint(-400, 400)
        if c < 0.93:
            return r.randint(-5000, 5000)
        return r.choice([-1, 1]) * r.randint(10 ** 5, 10 ** 8)

    def mpf(self, p, special=0.03, neg=0.5):
        r = self.r
        if r.random() < special:
            return r.choice(SPECIALS)
        nb = self.bits(p)
        m = self.mant(nb, p)
        if r.random() < neg:
            m = -m
        return mk(m, self.exp())

    def pair(self, p, special=0.04):
        """two operands with a relation the add/sub/cmp/div code branches on"""
        r = self.r
        x = self.mpf(p, special=special / 2)
        if x[1] == 0 or r.random() < 0.25:
            return x, self.mpf(p, special=special / 2)
        s, m, e, bc = x
        c = r.random()
        nb = self.bits(p)
        ym = self.mant(nb, p)
        if r.random() < 0.5:
            ym = -ym
        if c < 0.25:
            # exponent offset around 100 and top gap (delta) around p+4 / bc+4
            off = 100 + r.randint(-3, 30) if r.random() < 0.5 else r.randint(90, 130) + r.choice([0, p, bc])
            delta = r.choice([p, bc, max(p, bc)]) + 4 + r.randint(-3, 3)
            # choose y's exponent so that e - ye = off (if possible) else top gap = delta
            if r.random() < 0.5:
                ye = e - off
            else:
                ye = (e + bc) - delta - abs(ym).bit_length()
            y = mk(ym, ye)
        elif c < 0.4:
            y = mk(ym, (e + bc) - abs(ym).bit_length() + r.randint(-1, 1))       # same top: cancellation
        elif c < 0.5:
            y = mk(-(m if not s else -m) + r.choice([0, 1, -1, 2]) , e)            # (near-)exact cancellation
        elif c < 0.6:
            y = mk(ym, e)                                                           # equal exponents
        elif c < 0.7:
            y = mk(ym, e + r.randint(-p - 8, p + 8))
        elif c < 0.8:
            y = mk(ym, e - r.randint(p, 3 * p + 300))                               # far below
        else:
            y = mk(ym, self.exp())
        if r.random() < 0.5:
            return y, x
        return x, y
