"""Precision recorder and fault injector for the C11 / C38 trace checks.

All writes to a context's working precision in mpmath go through the `prec` / `dps` property
setters of PythonMPContext and MPIntervalContext (checked by reading the code: no other write to
_prec_rounding[0] / _prec / _dps exists; the 'sync' clause of TracePrecCtx catches a future one),
so replacing those two properties by logging ones observes every change without a repo hook."""
import sys


class Injected(Exception):
    """the exception raised at an enumerated crash point"""


class PrecRecorder:
    def __init__(self, contexts):
        """contexts: ordered dict name -> context object"""
        self.ctx = dict(contexts)
        self.byid = {id(c): n for n, c in self.ctx.items()}
        self.events = []
        self._patched = []
        for c in self.ctx.values():
            self._patch(type(c))

    def _patch(self, cls):
        for k in cls.__mro__:
            if "prec" in k.__dict__ and isinstance(k.__dict__["prec"], property) and k not in [p[0] for p in self._patched]:
                pp, dp = k.__dict__["prec"], k.__dict__["dps"]
                if pp.fset is None or getattr(pp.fset, "_verif", False):
                    return
                rec = self

                def mk(orig, evname):
                    def fset(ctx, n):
                        orig.fset(ctx, n)
                        name = rec.byid.get(id(ctx))
                        if name is not None:
                            try:
                                nn = int(n)
                            except Exception:
                                nn = -1
                            if not (0 <= nn < 2 ** 30):
                                nn = -1
                            rec.events.append({"ev": evname, "c": name, "n": nn, "st": [int(ctx.prec), int(ctx.dps)]})
                    fset._verif = True
                    return property(orig.fget, fset)
                self._patched.append((k, pp, dp))
                k.prec = mk(pp, "set_prec")
                k.dps = mk(dp, "set_dps")
                return

    def restore(self):
        for k, pp, dp in self._patched:
            k.prec = pp
            k.dps = dp
        self._patched = []

    def state(self):
        return {n: [int(c.prec), int(c.dps), int(bool(getattr(c, "pretty", False))),
                    int(bool(getattr(c, "trap_complex", False)))] for n, c in self.ctx.items()}

    def log(self, ev, **kw):
        e = {"ev": ev}
        e.update(kw)
        e["st"] = self.state()
        self.events.append(e)
        return len(self.events) - 1


class Injector:
    """sys.monitoring based: counts starts of selected code objects, or raises at the k-th start."""

    def __init__(self, targets):
        """targets: dict label -> code object (or a predicate label '<doc>' handled by filename)"""
        self.mon = sys.monitoring
        self.tool = 3
        try:
            self.mon.use_tool_id(self.tool, "verif-inject")
        except ValueError:
            pass
        self.codes = {}
        for label, code in targets.items():
            self.codes[code] = label
        self.counts = {}
        self.arm = None       # (label, k)
        self.fired = False
        self.total = 0
        self.budget = None    # deterministic work budget: total starts of monitored functions per call
        self.budget_hit = False
        self.mon.register_callback(self.tool, self.mon.events.PY_START, self._cb)
        for code in self.codes:
            self.mon.set_local_events(self.tool, code, self.mon.events.PY_START)

    def _cb(self, code, offset):
        label = self.codes.get(code)
        if label is None:
            return
        n = self.counts.get(label, 0) + 1
        self.counts[label] = n
        self.total += 1
        if self.budget is not None and self.total > self.budget and not self.budget_hit:
            self.budget_hit = True
            raise Injected("work-budget")
        if self.arm is not None and not self.fired and self.arm[0] == label and self.arm[1] == n:
            self.fired = True
            raise Injected("%s#%d" % (label, n))

    def add_code(self, label, code):
        if code not in self.codes:
            self.codes[code] = label
            self.mon.set_local_events(self.tool, code, self.mon.events.PY_START)

    def begin(self, arm=None):
        self.counts = {}
        self.total = 0
        self.budget_hit = False
        self.arm = arm
        self.fired = False

    def close(self):
        for code in self.codes:
            self.mon.set_local_events(self.tool, code, 0)
        self.mon.register_callback(self.tool, self.mon.events.PY_START, None)
        self.mon.free_tool_id(self.tool)
