"""Case generators for the real-number core (C01-C03, C05, C06, C09, C10, C39) and the shared
record -> judge loop.  Each group returns cases for cases.Runner; C01 and C10 pool all groups."""
import fractions, math
from . import gen, cases, enc, tlc
from .cases import A_f, A_z, A_d, A_q, A_l, case

BINOPS = ["add", "sub", "mul", "div"]


def _int_of(t):
    return (-1) ** t[0] * (t[1] << t[2])


def group_c02(g, n):
    r = g.r
    out = []
    while len(out) < n:
        p = g.prec(big=r.random() < 0.1)
        rnd = g.mode()
        c = r.random()
        if r.random() < 0.08:
            # hard cases built from the exact oracle: the exact result lies a hair away from a p-bit number or from a
            # midpoint between two p-bit numbers (rounding boundary), so that only exact sticky-bit handling gets it right
            pb = min(p, 300)
            q = g.mant(pb, pb)                                   # the p-bit neighbour
            half = r.random() < 0.5                              # ... or the midpoint q + 1/2 ulp
            Q2 = 2 * q + (1 if half else 0)                      # boundary = Q2 / 2 in units of the last place
            tiny = r.choice([0, 1, -1, 1, -1]) 
            j = r.randint(2, pb + 64)
            lvl = "libmp"
            which = r.choice(["sqrt", "div", "div", "add", "mul"])
            if which == "sqrt":
                # x = (Q2/2)^2 * (1 + tiny 2^-j) as an exact dyadic
                num = Q2 * Q2 * (1 << j) + tiny * Q2 * Q2 // max(1, Q2.bit_length()) if False else (Q2 * Q2 << j) + tiny
                x = gen.mk(num, r.randint(-40, 40) * 2 - 2 - j)
                out.append(case("sqrt", lvl, [A_f(x)], pb, rnd))
            elif which == "div":
                d = g.mant(r.randint(1, pb), pb)
                num = (Q2 * d << j) + tiny
                out.append(case("div", lvl, [A_f(gen.mk(num * r.choice([1, -1]), r.randint(-40, 40) - j - 1)), A_f(gen.mk(d * r.choice([1, -1]), r.randint(-40, 40)))], pb, rnd))
            elif which == "add":
                a = g.mant(r.randint(1, pb + 20), pb)
                tot = (Q2 << j) + tiny                            # exact sum a + b = tot * 2^-(j+1): b = tot - a*2^k
                sh = r.randint(0, j)
                b = tot - (a << sh)
                if b == 0:
                    continue
                sg = r.choice([1, -1])
                out.append(case("add", lvl, [A_f(gen.mk(sg * a, sh - j - 1)), A_f(gen.mk(sg * b, -j - 1))], pb, rnd))
            else:
                # product of two odd numbers close to a boundary is not constructible in general: use squares of midpoints
                a = g.mant(pb // 2 + r.randint(0, 3), pb) | 1
                out.append(case("mul", lvl, [A_f(gen.mk(a * r.choice([1, -1]), r.randint(-30, 30))), A_f(gen.mk(((Q2 << j) + tiny) // a | 1, r.randint(-30, 30)))], pb, rnd))
            continue
        if c < 0.55:
            op = r.choice(BINOPS)
            x, y = g.pair(p)
            if r.random() < 0.12:
                # path lifting for the far-exponent shortcut of mpf_add: the larger operand has more bits
                # than the precision, the exponent offset exceeds 100, and the smaller operand starts
                # delta bits below the top with delta around prec+4 .. bc+4 (it overlaps the low bits)
                op = r.choice(["add", "sub"])
                sbc = p + r.randint(1, 300)
                delta = r.choice([p + 4 + r.randint(-2, 3), sbc + 4 + r.randint(-3, 2), r.randint(p + 2, sbc + 6)])
                tbc = max(1, sbc - delta + 101 + r.randint(0, 40))
                sm = g.mant(sbc, p); tm = g.mant(tbc, p)
                se = r.randint(-50, 50)
                te = se + sbc - delta - tbc
                x = gen.mk(sm * r.choice([1, -1]), se); y = gen.mk(tm * r.choice([1, -1]), te)
                if r.random() < 0.5:
                    x, y = y, x
            lvl = r.choice(["libmp", "libmp", "oper", "ffun"])
            if op in ("mul", "div") and r.random() < 0.12:
                # the integer-operand entry points of libmp, in every rounding mode
                n_ = r.choice([r.randint(-1000, 1000), r.getrandbits(r.randint(1, 200)) * r.choice([1, -1]), 2 ** r.randint(0, 70) * r.choice([1, -1]), 3, -3, -1]) or 7
                if op == "mul":
                    out.append(case("mul", "libmpint", [A_f(x), A_z(n_)], p, rnd))
                elif x[1]:
                    out.append(case("div", "libmpint", [A_z(n_), A_f(x)], p, rnd))
                continue
            if lvl == "oper":
                rnd = "n"
            t = r.random()
            if lvl != "libmp" and t < 0.2 and y[1] and 0 <= y[2] < 64:
                n_ = _int_of(y)
                args = [A_f(x), A_z(n_)] if r.random() < 0.5 else [A_z(n_), A_f(x)]
            elif lvl != "libmp" and t < 0.35:
                fl = r.choice([0.1, -2.5, 1e300, 5e-324, 3.0, -1e-200, float(r.getrandbits(60)), r.random()])
                args = [A_f(x), A_d(fl)] if r.random() < 0.5 else [A_d(fl), A_f(x)]
            else:
                args = [A_f(x), A_f(y)]
            kw = {}
            if lvl == "ffun" and r.random() < 0.15 and op != "div":
                if args[0][0] == "f" and args[1][0] == "f" and abs(args[0][3] - args[1][3]) < 20000:
                    kw = {"exact": True} if r.random() < 0.5 else {"inf": True}
            out.append(case(op, lvl, args, p, rnd, **kw))
        elif c < 0.63:
            x = g.mpf(p, neg=0.0)
            if x == gen.FNINF:
                x = gen.FINF
            lvl = r.choice(["libmp", "oper", "ffun"])
            out.append(case("sqrt", lvl, [A_f(x)], p, "n" if lvl == "oper" else rnd))
        elif c < 0.73:
            x = g.mpf(p)
            op = r.choice(["pos", "neg", "abs"])
            lvl = r.choice(["libmp", "oper"] + (["ffun"] if op == "neg" else []) + (["ctor"] if op == "pos" else []))
            out.append(case(op, lvl, [A_f(x)], p, "n" if lvl == "oper" else rnd))
        elif c < 0.8:
            nb = g.bits(p)
            n_ = g.mant(nb, p) << r.choice([0, 0, 1, 7, r.randint(0, 300)])
            if r.random() < 0.5:
                n_ = -n_
            if r.random() < 0.05:
                n_ = 0
            lvl = r.choice(["libmp", "ctor", "oper"])
            out.append(case("from_int", lvl, [A_z(n_)], p, "n" if lvl == "oper" else rnd))
        elif c < 0.87:
            pn = g.mant(g.bits(p), p) * r.choice([1, -1])
            qn = g.mant(g.bits(p), p)
            lvl = r.choice(["libmp", "oper"])
            out.append(case("from_rational", lvl, [A_q(pn, qn)], p, "n" if lvl == "oper" else rnd))
        elif c < 0.9:
            fl = r.choice([0.1, -2.5, 1e300, 5e-324, 2.2250738585072014e-308, 1.7976931348623157e308,
                           float("inf"), float("-inf"), r.random() * 2.0 ** r.randint(-1000, 1000), -0.0])
            lvl = r.choice(["libmp", "ctor"])
            out.append(case("from_float", lvl, [A_d(fl)], p, rnd))
        elif c < 0.94:
            op = r.choice(["mulint", "rdivint"])
            x = g.mpf(p)
            n_ = r.choice([0, 1, -1, 3, 1023, 1024, -7]) if r.random() < 0.5 else g.mant(g.bits(p), p) * r.choice([1, -1])
            args = [A_f(x), A_z(n_)] if op == "mulint" else [A_z(n_), A_f(x)]
            out.append(case(op, "libmp", args, p, rnd))
        else:
            k = r.randint(1, 8)
            top = r.randint(-50, 50)
            terms = []
            for _ in range(k):
                nb = r.randint(1, p)
                m = g.mant(nb, p) * r.choice([1, -1])
                span = r.randint(0, max(0, p - 1))
                terms.append(gen.mk(m, top - span - nb))
            if r.random() < 0.6:
                lvl = r.choice(["libmp", "oper"])
                out.append(case("sum", lvl, [A_l([A_f(t) for t in terms])], p, "n" if lvl == "oper" else rnd))
            else:
                ys = [gen.mk(g.mant(r.randint(1, 4), p) * r.choice([1, -1]), r.randint(-2, 2)) for _ in terms]
                terms2 = [gen.mk(g.mant(r.randint(1, max(1, p - 4)), p) * r.choice([1, -1]), top - r.randint(0, 3)) for _ in terms]
                cc = case("dot", "oper", [A_l([A_f(t) for t in terms2]), A_l([A_f(t) for t in ys])], p, "n")
                if dot_side_ok(cc):
                    out.append(cc)
    return out


def group_intops(g, n):
    """the integer-operand entry points (mpf_mul_int, mpf_rdiv_int: backend-specific implementations), all modes"""
    r = g.r
    out = []
    while len(out) < n:
        p = g.prec(); rnd = g.mode()
        x = g.mpf(p, special=0.03)
        n_ = r.choice([r.randint(-1000, 1000), r.getrandbits(r.randint(1, 200)) * r.choice([1, -1]), 2 ** r.randint(0, 70) * r.choice([1, -1]), 3, -3, -1, 10, -10]) or 7
        if r.random() < 0.7:
            out.append(case("mul", "libmpint", [A_f(x), A_z(n_)], p, rnd))
        elif x[1]:
            out.append(case("div", "libmpint", [A_z(n_), A_f(x)], p, rnd))
    return out


def dot_side_ok(c):
    """C02's side condition for fdot: exact products of at most p bits spanning fewer than p bits."""
    p = c["p"]
    xs, ys = c["args"][0][1], c["args"][1][1]
    prods = []
    for x, y in zip(xs, ys):
        if x[2] == 0 or y[2] == 0:
            continue
        m = x[2] * y[2]
        prods.append((m.bit_length(), x[3] + y[3]))
    if not prods:
        return True
    if any(b > p for b, _ in prods):
        return False
    return max(b + e for b, e in prods) - min(e for _, e in prods) < p


def _iroot(a, n):
    """floor of the n-th root of a natural number"""
    if a < 2:
        return a
    x = 1 << ((a.bit_length() + n - 1) // n)
    while True:
        y = ((n - 1) * x + a // x ** (n - 1)) // n
        if y >= x:
            return x
        x = y


def group_c03(g, n):
    r = g.r
    out = []
    while len(out) < n:
        p = g.prec()
        rnd = g.mode()
        x = g.mpf(p, special=0.04)
        s, m, e, bc = x
        c = r.random()
        if r.random() < 0.3:
            # hard cases: x is a many-bit n-th root of a p-bit number, so x^n lies a hair's breadth from a
            # representable value and only a consistently directed evaluation lands on the right side
            nn = r.choice([2, 3, 3, 5, 7, 9, 12, 17, 33])
            p = min(p, 400)
            M = g.mant(r.randint(max(1, p - 3), p), p) | 1
            xb = max(p + 4 * nn.bit_length() + r.randint(6, 40), 1000 // nn + 2)
            if xb * nn > 14000:
                continue
            k = xb - (M.bit_length() + nn - 1) // nn
            root = _iroot(M << (nn * k), nn) + r.choice([0, 1])
            x = gen.mk(r.choice([1, -1]) * root, r.randint(-20, 20) - k)
            if r.random() < 0.15:
                nn = -nn
            out.append(case("pow_int", "libmp", [A_f(x), A_z(nn)], p, rnd))
            continue
        if c < 0.5:
            nn = r.randint(-40, 40)
        elif c < 0.8:
            nn = r.choice([1, -1]) * r.randint(2, 2000)
        else:
            nn = r.choice([1, -1]) * r.choice([999 // max(bc, 1), 1000 // max(bc, 1) + 1, 1001 // max(bc, 1) + 1, 2 ** r.randint(1, 14), 2 ** r.randint(1, 14) - 1])
        if m and (bc * abs(nn) > 15000 or abs(e * nn) >= 2 ** 29):
            if abs(e) > 2000:
                x = gen.mk((-1) ** s * m, r.randint(-50, 50)); s, m, e, bc = x
            if bc * abs(nn) > 15000:
                nn = max(1, 15000 // bc) * (1 if nn > 0 else -1)
            if abs(e * nn) >= 2 ** 29:
                continue
        lvl = r.choice(["libmp", "libmp", "oper", "ofun"])
        out.append(case("pow_int", lvl, [A_f(x), A_z(nn)], p, rnd if lvl == "libmp" else "n"))
    return out


def group_c05(g, n):
    r = g.r
    out = []
    rels = ["lt", "le", "gt", "ge", "eq", "ne"]
    while len(out) < n:
        p = g.prec()
        x, y = g.pair(p, special=0.12)
        c = r.random()
        if c < 0.15:
            y = x
        elif c < 0.25 and x[1]:
            y = gen.mk(gen.value(x)[0] * 2 + r.choice([-1, 1]), x[2] - 1)     # adjacent values
        if r.random() < 0.3:
            # hashing: an mpf against an equal (or nearly equal) int / float / mpf
            t = r.random()
            if x[1] and x[2] < 0 and r.random() < 0.5:
                x = gen.mk(gen.value(x)[0], r.randint(0, 200))        # make it an integer
            if t < 0.4 and (x[1] == 0 or 0 <= x[2] < 3000) and x in (gen.FZERO,) + ((x,) if x[1] else ()):
                other = A_z(_int_of(x) + r.choice([0, 0, 0, 1]))
            elif t < 0.8 and _as_float(x, r) is not None:
                other = A_d(_as_float(x, r))
            else:
                other = A_f(y if r.random() < 0.3 else x)
            out.append(case("hash_eq", "oper", [A_f(x), other], p, "n"))
            continue
        rel = r.choice(rels)
        if r.random() < 0.15:
            # mpf values outside the double range (or below the subnormal grid) against floats near the range ends
            m = g.mant(r.randint(1, 53), 53) * r.choice([1, -1])
            e = r.choice([-1, 1]) * r.randint(1020, 1300) if r.random() < 0.7 else r.randint(-1130, -1060)
            x = gen.mk(m, e - abs(m).bit_length() if e > 0 else e)
            fl = r.choice([0.0, -0.0, 5e-324, -5e-324, 1e-320, 2.0 ** -1048, 2.2250738585072014e-308, 1.7976931348623157e308,
                           -1.7976931348623157e308, float("inf"), float("-inf")])
            args = [A_f(x), A_d(fl)] if r.random() < 0.5 else [A_d(fl), A_f(x)]
            out.append(case(rel, "oper", args, p, "n"))
            continue
        lvl = "libmp" if (rel != "ne" and r.random() < 0.4) else "oper"
        args = [A_f(x), A_f(y)]
        if lvl == "oper":
            t = r.random()
            if t < 0.25 and y[1] and 0 <= y[2] < 200:
                args = [A_f(x), A_z(_int_of(y))]
            elif t < 0.45:
                fl = _as_float(y, r)
                if fl is not None:
                    args = [A_f(x), A_d(fl)]
        out.append(case(rel, lvl, args, p, "n"))
    return out


def _as_float(t, r):
    if t == gen.FINF:
        return float("inf")
    if t == gen.FNINF:
        return float("-inf")
    if t == gen.FNAN:
        return float("nan")
    if t == gen.FZERO:
        return r.choice([0.0, -0.0])
    s, m, e, bc = t
    if bc <= 53 and -1074 <= e and e + bc <= 1024:
        return math.ldexp((-1) ** s * m, e)
    return None


def group_c06(g, n):
    r = g.r
    out = []
    while len(out) < n:
        p = g.prec()
        rnd = g.mode()
        c = r.random()
        if c < 0.55:
            op = r.choice(["floor", "ceil", "nint", "frac", "to_int"])
            x = g.mpf(p)
            if r.random() < 0.5 and x[1]:
                # integers, half-integers and near-integers of every size
                k = r.randint(0, 3)
                base = g.mant(g.bits(p), p) * r.choice([1, -1])
                x = gen.mk(base * 2 ** k + r.choice([0, 0, 1, -1]), -k) if r.random() < 0.7 else gen.mk(base, r.randint(-x[3] - 3, 3))
            if abs(x[2]) > 30000:
                continue
            if op == "to_int":
                lvl = r.choice(["libmp", "oper"])
            else:
                lvl = r.choice(["libmp", "oper", "ffun"])
            out.append(case(op, lvl, [A_f(x)], p, "n" if lvl == "oper" else rnd))
        else:
            x, y = g.pair(p, special=0.06)
            t = r.random()
            if r.random() < 0.15:
                # the modulo shortcuts: zero or tiny dividend, every sign mix, divisor a (multiple of a) power of two
                x = r.choice([gen.FZERO, gen.FZERO, gen.mk(r.choice([1, -1, 3, -5]), r.randint(-80, -2))])
                y = gen.mk(r.choice([1, -1, -1, 3, -3, -5, 7]), r.randint(-3, 12))
                t = 0.5
            if t < 0.2 and y[1]:
                y = gen.mk((-1) ** y[0], y[2] + y[3] - 1)          # power-of-two divisor
            if t > 0.8:
                x, y = (x, y) if (x[2] + x[3] <= y[2] + y[3]) else (y, x)   # divisor >> dividend
            lvl = r.choice(["libmp", "libmp", "oper", "ofun"])
            cc = case("mod", lvl, [A_f(x), A_f(y)], p, "n" if lvl != "libmp" else rnd)
            if x[1] and y[1]:
                # untrusted witness: k = floor(x / y), kept only while it is of moderate size
                if (x[2] + x[3]) - (y[2] + y[3]) > 6000 or abs(x[2] - y[2]) > 40000:
                    continue
                xn, xe = gen.value(x); yn, ye = gen.value(y)
                emin = min(xe, ye)
                k = (xn << (xe - emin)) // (yn << (ye - emin))
                cc["wit"] = [A_z(k)]
            else:
                cc["wit"] = [A_z(0)]
            out.append(cc)
    return out


def group_c09(g, n):
    r = g.r
    out = []
    while len(out) < n:
        c = r.random()
        if c < 0.65:
            p = r.choice([53, 53, 64, 100, 30])
            nb = r.choice([1, 10, 52, 53, 54, 55, 60, 106, 200])
            m = g.mant(nb, 53)
            if nb > 53 and r.random() < 0.5:
                # ties / near ties at 53 bits
                k = nb - 53
                m = ((m >> k) << k) | r.choice([1 << (k - 1), (1 << (k - 1)) + 1 if k > 1 else 1, (1 << (k - 1)) - 1 if k > 1 else 0])
                if m == 0:
                    continue
            band = r.random()
            if band < 0.5:
                top = r.randint(-1021, 1024)
            elif band < 0.75:
                top = r.choice([1024, 1025, 1023, -1021, -1022, -1020]) 
            elif band < 0.9:
                top = r.randint(-1080, -1015)
            else:
                top = r.randint(-3000, 3000)
            x = gen.mk(m * r.choice([1, -1]), top - nb)
            if r.random() < 0.05:
                x = r.choice(gen.SPECIALS)
            out.append(case("to_float", r.choice(["libmp", "oper"]), [A_f(x)], p, "n"))
        else:
            import struct
            bits = r.getrandbits(64)
            if r.random() < 0.3:
                bits = (r.getrandbits(1) << 63) | (r.choice([0, 1, 2046, 2047, 1023]) << 52) | r.choice([0, 1, (1 << 52) - 1, r.getrandbits(52)])
            fl = struct.unpack("<d", struct.pack("<Q", bits))[0]
            lvl = r.choice(["libmp", "ctor"])
            out.append(case("from_float", lvl, [A_d(fl)], 0 if lvl == "libmp" else r.choice([53, 64, 100, 1075]), "n"))
    return out


def group_c39(g, n):
    r = g.r
    out = []
    while len(out) < n:
        p = g.prec()
        op = r.choice(["mag", "frexp", "ldexp", "isint", "nint_distance"])
        x = g.mpf(p, special=0.1)
        if r.random() < 0.4 and x[1]:
            k = r.randint(0, 3)
            base = g.mant(g.bits(p), p) * r.choice([1, -1])
            x = gen.mk(base * 2 ** k + r.choice([0, 1, -1]), -k)
        if op == "ldexp":
            out.append(case(op, "oper", [A_f(x), A_z(r.randint(-5000, 5000))], p, "n"))
        elif op == "frexp":
            if x in (gen.FINF, gen.FNINF, gen.FNAN):
                continue
            out.append(case(op, "oper", [A_f(x)], p, "n"))
        elif op == "nint_distance":
            c = r.random()
            if c < 0.3:
                # rationals (mpq) and ints: fractional parts on both sides of 1/2, near-integers, half-integers
                q = r.choice([2, 3, 7, 8, 10, 1000, 2 ** r.randint(1, 80), 10 ** r.randint(1, 30), r.randint(2, 10 ** 6)])
                whole = r.choice([0, 1, -1, r.randint(-10 ** 6, 10 ** 6), r.getrandbits(r.randint(1, 120)) * r.choice([1, -1])])
                fr = r.choice([0, 1, q - 1, q // 2, q // 2 + 1, r.randint(0, q - 1), r.randint(0, q - 1)])
                out.append(case(op, "oper", [cases.A_mq(whole * q + fr, q) if c < 0.25 else A_z(whole)], p, "n"))
                continue
            if not x[1] and x != gen.FZERO:
                continue
            if abs(x[2]) > 30000:
                continue
            out.append(case(op, "oper", [A_f(x)], p, "n"))
        else:
            out.append(case(op, "oper", [A_f(x)], p, "n"))
    return out


def group_c10(g, n):
    """operands carrying about three times more bits than the working precision, through the public
    entry points, with the second operand an mpf, an int (powers of two, +-1, small) or a float"""
    r = g.r
    out = []
    while len(out) < n:
        p = r.choice([10, 24, 53, 53, 100])
        nb = 3 * p + r.randint(0, 40)
        x = gen.mk(g.mant(nb, p) * r.choice([1, -1]), r.randint(-60, 60) - nb)
        c = r.random()
        ints = [1, -1, 2, -2, 4, 8, 1024, 2 ** 70, -2 ** 33, 3, 6, 10, -7, 0]
        if c < 0.45:
            op = r.choice(BINOPS)
            t = r.random()
            if t < 0.45:
                other = A_z(r.choice(ints))
            elif t < 0.6:
                other = A_d(r.choice([2.0, 0.5, -4.0, 1.0, 3.0, 0.1]))
            else:
                other = A_f(gen.mk(g.mant(r.choice([1, 1, 2, nb]), p) * r.choice([1, -1]), r.randint(-70, 70)))
            args = [A_f(x), other] if r.random() < 0.6 else [other, A_f(x)]
            if op == "div" and args[1][0] == "z" and args[1][1] == 0:
                continue
            lvl = r.choice(["oper", "oper", "ffun"])
            out.append(case(op, lvl, args, p, "n" if lvl == "oper" else g.mode()))
        elif c < 0.6:
            op = r.choice(["neg", "pos", "abs"])
            out.append(case(op, "oper", [A_f(x)], p, "n"))
        elif c < 0.7:
            out.append(case("sqrt", r.choice(["oper", "ffun"]), [A_f((0,) + x[1:])], p, "n"))
        elif c < 0.8:
            out.append(case("pow_int", r.choice(["oper", "ofun"]), [A_f(x), A_z(r.choice([1, 2, 3, -1, -2, 0, 5]))], p, "n"))
        elif c < 0.9:
            out.append(case(r.choice(["floor", "ceil", "nint", "frac"]), r.choice(["oper", "ffun"]), [A_f(x)], p, "n"))
        else:
            y = gen.mk(g.mant(nb, p) * r.choice([1, -1]), r.randint(-60, 60) - nb)
            cc = case("mod", r.choice(["oper", "ofun"]), [A_f(x), A_f(y)], p, "n")
            xn, xe = gen.value(x); yn, ye = gen.value(y)
            emin = min(xe, ye)
            cc["wit"] = [A_z((xn << (xe - emin)) // (yn << (ye - emin)))]
            out.append(cc)
    return out


GROUPS = {"C10": group_c10, "C02": group_c02, "C03": group_c03, "C05": group_c05, "C06": group_c06, "C09": group_c09, "C39": group_c39}
# operations whose results may legitimately carry more bits than the working precision (C10's exempt table)
EXACT_OPS = {"ldexp", "frexp", "to_int", "mag", "isint", "nint_distance", "to_float", "hash_eq",
             "lt", "le", "gt", "ge", "eq", "ne"}


def pb_of(c):
    """precision bound for the C10 clause: 0 = exempt"""
    if c["kw"].get("exact") or c["kw"].get("inf"):
        return 0
    if c["op"] in EXACT_OPS:
        return 0
    return c["p"]


def nontrivial(ev):
    o = ev["o"]
    if o["k"] == "f":
        return len(o["m"]) > 0 and all(a.get("k") != "f" or len(a["m"]) > 0 for a in ev["a"])
    return all(a.get("k") != "f" or len(a["m"]) > 0 for a in ev["a"])


def record(cs, runner, start_id=0):
    """execute cases, return (events, {id: case}); cases the encoder cannot express are dropped"""
    events, byid, dropped = [], {}, 0
    for i, c in enumerate(cs):
        out = runner.run(c)
        try:
            ev = cases.to_event(start_id + i, c, out, pb=pb_of(c))
        except (enc.EncodeRange, TypeError, KeyError):
            dropped += 1
            continue
        events.append(ev)
        byid[ev["id"]] = c
    return events, byid, dropped


def abbreviate(obj, limit=60):
    """shorten huge integers inside a case for evidence samples"""
    if isinstance(obj, int) and not isinstance(obj, bool) and abs(obj) >= 10 ** limit:
        s = str(obj)
        return "%s...%s(%d digits)" % (s[:12], s[-6:], len(s))
    if isinstance(obj, list):
        return [abbreviate(x, limit) for x in obj]
    if isinstance(obj, dict):
        return {k: abbreviate(v, limit) for k, v in obj.items()}
    return obj
