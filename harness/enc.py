"""Event encoding: Python values -> JSON values understood by spec/Judge.tla.

Big integers are written as little-endian limb arrays in base 2**LB (LB = 10), which is
what spec/NatLimb.tla computes on; everything TLC sees as a native integer must stay
below 2**31, so exponents/bit counts are range-checked here (EncodeRange is raised and the
generator drops the case, counting it)."""
import struct

LB = 10
B = 1 << LB
MAXNATIVE = (1 << 30)
MAXLIMBS = 1900


class EncodeRange(Exception):
    pass


def limbs(n):
    n = int(n)
    assert n >= 0
    out = []
    while n:
        out.append(n & (B - 1))
        n >>= LB
    if len(out) > MAXLIMBS:
        raise EncodeRange("operand too long for native column sums")
    return out


def native(n):
    n = int(n)
    if abs(n) >= MAXNATIVE:
        raise EncodeRange("native int out of range")
    return n


def z(n):
    n = int(n)
    return {"k": "z", "s": 1 if n < 0 else 0, "m": limbs(abs(n))}


def i(n):
    return {"k": "i", "v": native(n)}


def b(v):
    return {"k": "b", "v": bool(v)}


def exc(e):
    name = e if isinstance(e, str) else type(e).__name__
    return {"k": "x", "v": name}


def sym(k):
    return {"k": k}


def f(t):
    """raw mpf tuple (sign, man, exp, bc) exactly as stored by the implementation"""
    s, m, e, bc = t
    return {"k": "f", "s": int(s), "m": limbs(m), "e": native(e), "bc": native(bc)}


def c(t):
    return {"k": "c", "re": f(t[0]), "im": f(t[1])}


def v(t):
    return {"k": "v", "a": f(t[0]), "b": f(t[1])}


def cv(t):
    return {"k": "cv", "re": v(t[0]), "im": v(t[1])}


def d(x):
    """IEEE double by its fields"""
    bits = struct.unpack("<Q", struct.pack("<d", float(x)))[0]
    return {"k": "d", "s": bits >> 63, "be": (bits >> 52) & 0x7FF, "fr": limbs(bits & ((1 << 52) - 1))}


def q(p, qq):
    p = int(p); qq = int(qq)
    if qq < 0:
        p, qq = -p, -qq
    return {"k": "q", "s": 1 if p < 0 else 0, "n": limbs(abs(p)), "d": limbs(qq)}


def t(vals):
    return {"k": "t", "v": list(vals)}


def s(text):
    return {"k": "s", "v": list(text.encode("utf-8"))}


def any_real(x):
    """int / float / raw mpf tuple / mpf object -> argument value"""
    if isinstance(x, bool):
        return z(int(x))
    if isinstance(x, int):
        return z(x)
    if isinstance(x, float):
        return d(x)
    if isinstance(x, tuple):
        return f(x)
    if hasattr(x, "_mpf_"):
        return f(x._mpf_)
    raise TypeError(type(x))


def from_limbs(ls):
    n = 0
    for k, x in enumerate(ls):
        n |= x << (LB * k)
    return n


def event(id_, op, args, p, r, out, pb=0, **extra):
    ev = {"id": id_, "op": op, "a": list(args), "p": native(p), "r": r, "o": out, "pb": native(pb)}
    ev.update(extra)
    return ev
