"""Worker for C37: executes a seeded stream of core operations under one backend and writes the
events (ndjson).  usage: python -m harness.c37_worker <seed> <n> <out.ndjson> <repo>"""
import json, sys


def main():
    seed, n, out, repo = int(sys.argv[1]), int(sys.argv[2]), sys.argv[3], sys.argv[4]
    sys.path.insert(0, repo)
    import mpmath
    from . import gen, cases, arith
    backend = mpmath.libmp.BACKEND
    runner = cases.Runner(mpmath)
    cs = []
    for k, name in enumerate(["C02", "C06", "C09", "C05", "C03"]):
        g = gen.G(seed * 1000 + k)
        cs += arith.GROUPS[name](g, n if name != "C03" else n // 4)
    cs += arith.group_intops(gen.G(seed * 1000 + 7), n // 2)
    events, byid, dropped = arith.record(cs, runner)
    # a few elementary functions at the libmp level (documented accuracy, not bit-identical by contract: compared with tolerance)
    lm = mpmath.libmp
    g = gen.G(seed * 1000 + 99)
    extra = []
    for i in range(n // 2):
        p = g.r.choice([30, 53, 100, 200])
        nb = g.r.randint(1, p)
        x = gen.mk(g.mant(nb, p) * g.r.choice([1, -1]), g.r.randint(-p - 5, 6) - nb)
        f = g.r.choice(["mpf_exp", "mpf_log", "mpf_atan", "mpf_cos", "mpf_sin", "mpf_sqrt", "mpf_cosh", "mpf_tanh"])
        if f == "mpf_log" or f == "mpf_sqrt":
            x = (0,) + x[1:]
        try:
            y = getattr(lm, f)(x, p, "n")
        except Exception as e:
            y = None
        extra.append({"f": f, "x": list(map(int, x)), "p": p, "y": list(map(int, y)) if y else None})
    with open(out, "w") as fh:
        fh.write(json.dumps({"backend": backend, "dropped": dropped}) + "\n")
        for ev in events:
            fh.write(json.dumps(ev, separators=(",", ":")) + "\n")
        fh.write(json.dumps({"extra": extra}) + "\n")


if __name__ == "__main__":
    main()
