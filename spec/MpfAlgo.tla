------------------------------- MODULE MpfAlgo -------------------------------
(***************************************************************************)
(* Layer 3 (code level): transcriptions of the libmp algorithms, returning  *)
(* the raw tuple the code would return.  The tuning constants of the code   *)
(* are CONSTANTS so that every branch is reachable in a miniature universe: *)
(*   FAR  the exponent offset beyond which mpf_add only perturbs (100)      *)
(*   G    its guard: the perturbation is used when the gap between the      *)
(*        leading bits exceeds max(prec, bitcount) + G  (4)                 *)
(*   DX   the extra quotient bits of mpf_div (5)                            *)
(*   PT   the exact-power threshold of mpf_pow_int: bc * n < PT (1000)      *)
(* Written over ZSig like the oracle (Exact), so that MpfMachine can check  *)
(* Algo => Post on native integers and the same text could be run on limbs. *)
(***************************************************************************)
EXTENDS Integers, Sequences, SequencesExt
CONSTANTS ZZero, ZOne, ZFromInt(_), ZToInt(_), ZSign(_), ZIsZero(_), ZNeg(_), ZAbs(_),
          ZAdd(_, _), ZSub(_, _), ZMul(_, _), ZMulSmall(_, _), ZCmp(_, _),
          ZShl(_, _), ZShr(_, _), ZBitLen(_), ZTrailing(_), ZIsOdd(_),
          ZLowZero(_, _), ZBit(_, _), ZPow(_, _), ZPow2(_), ZDivFloor(_, _), ZMod(_, _),
          FAR, G, DX, PT
INSTANCE MpfPost

\* shifts_down[rnd][sign]: does a right shift (floor of the magnitude) round in the wanted direction?
ShiftsDown(rnd, sign) == rnd = "d" \/ (rnd = "f" /\ sign = 0) \/ (rnd = "c" /\ sign = 1)

\* _normalize(sign, man, exp, bc, prec, rnd): man > 0, bc = bitcount(man)
ANormalize(sign, man, exp, bc, prec, rnd) ==
  IF ZIsZero(man) THEN FZero ELSE
  LET n == bc - prec
      cut == n > 0
      m1 == IF ~cut THEN man
            ELSE IF rnd = "n"
                 THEN LET t == ZShr(man, n - 1)
                      IN IF ZIsOdd(t) /\ (ZBit(t, 1) = 1 \/ ~ZLowZero(man, n - 1))
                         THEN ZAdd(ZShr(t, 1), ZOne) ELSE ZShr(t, 1)
            ELSE IF ShiftsDown(rnd, sign) THEN ZShr(man, n)
            ELSE ZNeg(ZShr(ZNeg(man), n))
      e1 == IF cut THEN exp + n ELSE exp
      b1 == IF cut THEN prec ELSE bc                    \* the code's bit count after the cut (may be one short)
      t2 == IF ZIsOdd(m1) THEN 0 ELSE ZTrailing(m1)
      m2 == ZShr(m1, t2)
      b2 == IF ZCmp(m2, ZOne) = 0 THEN 1 ELSE b1 - t2    \* "if man == 1: bc = 1" repairs the round-up to a power of two
  IN Mpf(sign, m2, e1 + t2, b2)

\* from_man_exp(man, exp, prec, rnd) with a signed mantissa
AFromManExp(man, exp, prec, rnd) ==
  IF ZIsZero(man) THEN FZero
  ELSE LET s == IF ZSign(man) < 0 THEN 1 ELSE 0  a == ZAbs(man)
       IN IF prec = 0 THEN Encode(Dy(man, exp)) ELSE ANormalize(s, a, exp, ZBitLen(a), prec, rnd)

\* mpf_add for finite operands (zero included), prec >= 1
AAdd(s, t, prec, rnd) ==
  IF s = FZero THEN (IF t = FZero THEN FZero ELSE ANormalize(t.s, t.m, t.e, t.bc, prec, rnd))
  ELSE IF t = FZero THEN ANormalize(s.s, s.m, s.e, s.bc, prec, rnd)
  ELSE
  LET offset == s.e - t.e
      \* the far-exponent shortcut, for the operand with the larger exponent (big) against the other (small)
      Far(big, small) ==
        LET delta == (big.bc + big.e) - (small.bc + small.e)
        IN IF delta > IMax(prec, big.bc) + G
           THEN LET sh == prec + G
                    m == IF big.s = small.s THEN ZAdd(ZShl(big.m, sh), ZOne) ELSE ZSub(ZShl(big.m, sh), ZOne)
                IN <<TRUE, ANormalize(big.s, m, big.e - sh, ZBitLen(m), prec, rnd)>>
           ELSE <<FALSE, FZero>>
      far == IF offset > FAR THEN Far(s, t) ELSE IF offset < -FAR THEN Far(t, s) ELSE <<FALSE, FZero>>
      e == IMin(s.e, t.e)
      sm == ZShl(IF s.s = 1 THEN ZNeg(s.m) ELSE s.m, s.e - e)
      tm == ZShl(IF t.s = 1 THEN ZNeg(t.m) ELSE t.m, t.e - e)
      sum == ZAdd(sm, tm)
  IN IF far[1] THEN far[2] ELSE AFromManExp(sum, e, prec, rnd)

\* python_mpf_mul: product mantissa, bit count sbc + tbc - 1 (+1), normalize
AMul(s, t, prec, rnd) ==
  IF s = FZero \/ t = FZero THEN FZero
  ELSE LET man == ZMul(s.m, t.m)
           b0 == s.bc + t.bc - 1
           bc == b0 + ZToInt(ZShr(man, b0))
       IN ANormalize((s.s + t.s) % 2, man, s.e + t.e, bc, prec, rnd)

\* mpf_div for finite nonzero t
ADiv(s, t, prec, rnd) ==
  IF s = FZero THEN FZero
  ELSE LET sign == (s.s + t.s) % 2
       IN IF ZCmp(t.m, ZOne) = 0 THEN ANormalize(sign, s.m, s.e - t.e, s.bc, prec, rnd)
          ELSE LET extra == IMax(prec - s.bc + t.bc + DX, DX)
                   num == ZShl(s.m, extra)
                   quot == ZDivFloor(num, t.m)
                   rem == ZSub(num, ZMul(quot, t.m))
               IN IF ZIsZero(rem) THEN ANormalize(sign, quot, s.e - t.e - extra, ZBitLen(quot), prec, rnd)
                  ELSE LET q2 == ZAdd(ZShl(quot, 1), ZOne)
                       IN ANormalize(sign, q2, s.e - t.e - extra - 1, ZBitLen(q2), prec, rnd)

\* mpf_mod for finite s, finite nonzero t (with the repaired first shortcut)
AMod(s, t, prec, rnd) ==
  IF s = FZero THEN FZero
  ELSE IF s.s = t.s /\ t.e > s.e + s.bc THEN ANormalize(s.s, s.m, s.e, s.bc, prec, rnd)
  ELSE IF ZCmp(t.m, ZOne) = 0 /\ s.e > t.e + t.bc THEN FZero
  ELSE LET base == IMin(s.e, t.e)
           sm == ZShl(IF s.s = 1 THEN ZNeg(s.m) ELSE s.m, s.e - base)
           tm == ZShl(IF t.s = 1 THEN ZNeg(t.m) ELSE t.m, t.e - base)
           man == ZMod(sm, tm)                               \* Python's %: the sign of the divisor
       IN AFromManExp(man, base, prec, rnd)

\* mpf_round_int(s, rnd) for rnd in {"f", "c", "n"} (floor, ceil, nint), finite s
ARoundInt(s, rnd) ==
  IF s = FZero \/ s.e >= 0 THEN s
  ELSE LET mag == s.e + s.bc IN
       IF mag < 1
       THEN CASE rnd = "c" -> (IF s.s = 1 THEN FZero ELSE FOne)
              [] rnd = "f" -> (IF s.s = 1 THEN FNeg(FOne) ELSE FZero)
              [] rnd = "n" -> (IF mag < 0 \/ ZCmp(s.m, ZOne) = 0 THEN FZero ELSE IF s.s = 1 THEN FNeg(FOne) ELSE FOne)
       ELSE ANormalize(s.s, s.m, s.e, s.bc, IMin(s.bc, mag), rnd)          \* mpf_pos(s, min(bc, mag), rnd)

ReciprocalRnd(rnd) == CASE rnd = "d" -> "u" [] rnd = "u" -> "d" [] rnd = "f" -> "c" [] rnd = "c" -> "f" [] OTHER -> "n"
BitLenNative(n) == ZBitLen(ZFromInt(n))
\* the binary exponentiation loop of mpf_pow_int: state <<pm, pe, pbc, man, exp, bc, n>>
RECURSIVE APowLoop(_, _, _, _, _, _, _, _, _)
APowLoop(pm, pe, pbc, man, exp, bc, n, workprec, down) ==
  LET Cut(m, b) == IF b > workprec
                   THEN <<IF down THEN ZShr(m, b - workprec) ELSE ZNeg(ZShr(ZNeg(m), b - workprec)), b - workprec, workprec>>
                   ELSE <<m, 0, b>>
      odd == n % 2 = 1
      pm1 == ZMul(pm, man)
      pb0 == pbc + bc - 2
      pb1 == pb0 + BitLenNative(ZToInt(ZShr(pm1, pb0)))
      pc == Cut(pm1, pb1)
      PM == IF odd THEN pc[1] ELSE pm
      PE == IF odd THEN pe + exp + pc[2] ELSE pe
      PB == IF odd THEN pc[3] ELSE pbc
      n1 == IF odd THEN n - 1 ELSE n
  IN IF odd /\ n1 = 0 THEN <<PM, PE, PB>>
     ELSE LET m2 == ZMul(man, man)
              b0 == bc + bc - 2
              b1 == b0 + BitLenNative(ZToInt(ZShr(m2, b0)))
              mc == Cut(m2, b1)
          IN APowLoop(PM, PE, PB, mc[1], exp + exp + mc[2], mc[3], n1 \div 2, workprec, down)
\* mpf_pow_int for finite nonzero s
RECURSIVE APowInt(_, _, _, _)
APowInt(s, n, prec, rnd) ==
  IF n = 0 THEN FOne
  ELSE IF n = 1 THEN ANormalize(s.s, s.m, s.e, s.bc, prec, rnd)
  ELSE IF n = 2 THEN LET m2 == ZMul(s.m, s.m)
                         b0 == s.bc + s.bc - 2
                     IN IF ZCmp(m2, ZOne) = 0 THEN Mpf(0, ZOne, s.e + s.e, 1)
                        ELSE ANormalize(0, m2, s.e + s.e, b0 + BitLenNative(ZToInt(ZShr(m2, b0))), prec, rnd)
  ELSE IF n = -1 THEN ADiv(FOne, s, prec, rnd)
  ELSE IF n < 0 THEN ADiv(FOne, APowInt(s, -n, prec + 5, ReciprocalRnd(rnd)), prec, rnd)
  ELSE LET rs == IF s.s = 1 /\ n % 2 = 1 THEN 1 ELSE 0
       IN IF ZCmp(s.m, ZOne) = 0 THEN Mpf(rs, ZOne, s.e * n, 1)
          ELSE IF s.bc * n < PT THEN LET mp == ZPow(s.m, n) IN ANormalize(rs, mp, s.e * n, ZBitLen(mp), prec, rnd)
          ELSE LET down == rnd = "n" \/ ShiftsDown(rnd, rs)
                   wpw == prec + 4 * BitLenNative(n) + 4
                   r == APowLoop(ZOne, 0, 1, s.m, s.e, s.bc, n, wpw, down)
               IN ANormalize(rs, r[1], r[2], r[3], prec, rnd)         \* the tracked bit count (one short only when pm is a power of two)

\* floor square root on ZSig, bit by bit from the top
RECURSIVE ISqrtBits(_, _, _)
ISqrtBits(n, r, k) == IF k < 0 THEN r
                      ELSE LET c == ZAdd(r, ZShl(ZOne, k)) IN ISqrtBits(n, IF ZCmp(ZMul(c, c), n) <= 0 THEN c ELSE r, k - 1)
ZISqrt(n) == IF ZIsZero(n) THEN ZZero ELSE ISqrtBits(n, ZZero, (ZBitLen(n) \div 2) + 1)
\* mpf_sqrt for finite s >= 0: even exponent, shift to 2*prec+4 bits, floor root for the downward modes, otherwise the
\* root with a sticky bit appended when the remainder is nonzero ("perturb up")
ASqrt(s, prec, rnd) ==
  IF s = FZero THEN FZero
  ELSE LET odd == s.e % 2 = 1
           man0 == IF odd THEN ZShl(s.m, 1) ELSE s.m
           exp0 == IF odd THEN s.e - 1 ELSE s.e
           bc0 == IF odd THEN s.bc + 1 ELSE s.bc
       IN IF ~odd /\ ZCmp(s.m, ZOne) = 0 THEN ANormalize(0, s.m, s.e \div 2, s.bc, prec, rnd)
          ELSE LET sh0 == IMax(4, 2 * prec - bc0 + 4)
                   sh == sh0 + (sh0 % 2)
                   big == ZShl(man0, sh)
                   root == ZISqrt(big)
                   exact == ZCmp(ZMul(root, root), big) = 0
               IN IF rnd \in {"f", "d"} \/ exact THEN AFromManExp(root, (exp0 - sh) \div 2, prec, rnd)
                  ELSE AFromManExp(ZAdd(ZShl(root, 1), ZOne), (exp0 - sh - 2) \div 2, prec, rnd)

\* mpf_cmp for finite operands: -1, 0, 1
ACmp(s, t) ==
  IF s = FZero THEN -FSignum(t)
  ELSE IF t = FZero THEN FSignum(s)
  ELSE IF s.s # t.s THEN (IF s.s = 0 THEN 1 ELSE -1)
  ELSE IF s.e = t.e THEN (LET c == ZCmp(s.m, t.m) IN IF s.s = 1 THEN -c ELSE c)
  ELSE LET a == s.bc + s.e  b == t.bc + t.e
       IN IF a # b THEN (IF (a < b) = (s.s = 0) THEN -1 ELSE 1)
          ELSE LET d == AAdd(s, FNeg(t), 5, "f")            \* mpf_sub(s, t, 5, round_floor)
               IN IF d.s = 1 THEN -1 ELSE 1
=============================================================================
