------------------------------- MODULE RealFun -------------------------------
(***************************************************************************)
(* Layer 5 (real-analysis part): rigorous enclosures of pi, ln 2, exp, log, *)
(* atan, sin and cos computed INSIDE the specification in fixed-point       *)
(* arithmetic on ZSig integers, so that the elementary functions and the    *)
(* constants are anchored to their mathematical definitions and not only    *)
(* to consistency between precisions.                                       *)
(*                                                                         *)
(* A fixed-point value  [v |-> Z, e |-> native]  at working scale w stands  *)
(* for every real in  [(v - e) 2^-w, (v + e) 2^-w];  each operation below   *)
(* propagates e so that the enclosure stays rigorous (floor rounding of     *)
(* every product / quotient costs one unit, series are cut with their       *)
(* remainder bound added).  Remainder bounds used (trusted mathematics):    *)
(*   alternating series with decreasing terms: |tail| <= first omitted term *)
(*   exp Taylor with |r| <= 1/2:      |tail| <= 2 * |first omitted term|    *)
(*   atanh series with |y| <= 1/2:    |tail| <= 2 * |first omitted term|    *)
(* A result enclosure is  [lo, hi] * 2^sh  (lo, hi in Z, sh native).        *)
(***************************************************************************)
EXTENDS Integers, Sequences, SequencesExt, FiniteSets
CONSTANTS ZZero, ZOne, ZFromInt(_), ZToInt(_), ZSign(_), ZIsZero(_), ZNeg(_), ZAbs(_),
          ZAdd(_, _), ZSub(_, _), ZMul(_, _), ZMulSmall(_, _), ZCmp(_, _),
          ZShl(_, _), ZShr(_, _), ZBitLen(_), ZTrailing(_), ZIsOdd(_),
          ZLowZero(_, _), ZBit(_, _), ZPow(_, _), ZPow2(_), ZDivFloor(_, _), ZMod(_, _),
          ZMk(_, _)
INSTANCE Oblig

RECURSIVE Pow2I(_)
Pow2I(k) == IF k <= 0 THEN 1 ELSE 2 * Pow2I(k - 1)            \* native, k <= 30
RECURSIVE BitLenI(_)
BitLenI(n) == IF n = 0 THEN 0 ELSE 1 + BitLenI(n \div 2)
Fx(v, e) == [v |-> v, e |-> e]
FxInt(n, w) == Fx(ZShl(ZFromInt(n), w), 0)
FxAdd(a, b) == Fx(ZAdd(a.v, b.v), a.e + b.e)
FxSub(a, b) == Fx(ZSub(a.v, b.v), a.e + b.e)
FxNeg(a) == Fx(ZNeg(a.v), a.e)
FxMulInt(a, k) == Fx(ZMulSmall(a.v, k), a.e * IAbs(k))                 \* k native
FxShr(a, s) == Fx(ZShr(a.v, s), (IF s >= 30 THEN 0 ELSE a.e \div Pow2I(s)) + 1)     \* divide by 2^s  (a.e < 2^30)
\* upper bound, as a native int, of |v| * e / 2^w  (e native and small)
ErrScale(v, e, w) == IF e = 0 THEN 0 ELSE ZToInt(ZShr(ZMulSmall(ZAbs(v), e), w)) + 1
FxMul(a, b, w) ==
  Fx(ZShr(ZMul(a.v, b.v), w), ErrScale(a.v, b.e, w) + ErrScale(b.v, a.e, w)
       + (IF a.e < 32768 /\ b.e < 32768 THEN (a.e * b.e) \div Pow2I(IMin(w, 30))
          ELSE ((a.e \div 1024) + 1) * ((b.e \div 1024) + 1))             \* w >= 20: an upper bound without native overflow
       + 2)
FxDivSmall(a, k) == Fx(ZDivFloor(a.v, ZFromInt(k)), (a.e \div k) + 2)    \* k native >= 1
FxDivSmall2(a, k1, k2) == FxDivSmall(FxDivSmall(a, k1), k2)            \* divide by k1*k2 with single-limb divisors
\* a / b for |b| >= 2^(w-3) (the caller guarantees b is bounded away from zero)
FxDiv(a, b, w) ==
  LET q == ZDivFloor(ZShl(a.v, w), b.v)
      \* |a/b - q| <= (a.e + |q| b.e 2^-w) / (|b.v| - b.e) * 2^w + 1
      num == a.e + ErrScale(q, b.e, w) + 1
      den == ZSub(ZAbs(b.v), ZFromInt(b.e))
  IN Fx(q, ZToInt(ZDivFloor(ZShl(ZFromInt(num), w), den)) + 2)
FxOfDy(d, w) ==                       \* a dyadic as a fixed-point value (exact when it has no bits below 2^-w)
  IF DyIsZero(d) THEN Fx(ZZero, 0)
  ELSE IF d.e + w >= 0 THEN Fx(ZShl(d.m, d.e + w), 0)
  ELSE Fx(ZShr(d.m, -(d.e + w)), 1)

(*************************** constants *************************************)
\* sum_{k>=0} s^k / ((2k+1) q^(2k+1)) at scale w, s = -1 (atan 1/q) or +1 (atanh 1/q); q native, q*q < 2^20
InvSeries(q, alt, w) ==
  LET n == (w \div (2 * (BitLenI(q) - 1))) + 3
      st == FoldLeft(LAMBDA acc, k :        \* acc = <<sum, power term q^-(2k+1)>>
                LET pw == ZDivFloor(ZDivFloor(acc[2], ZFromInt(q)), ZFromInt(q))
                    t == ZDivFloor(pw, ZFromInt(2 * k + 1))
                IN <<IF alt /\ k % 2 = 1 THEN ZSub(acc[1], t) ELSE ZAdd(acc[1], t), pw>>,
                <<ZDivFloor(ZPow2(w), ZFromInt(q)), ZDivFloor(ZPow2(w), ZFromInt(q))>>, IRange(1, n))
  IN Fx(st[1], 2 * n + 4)             \* two floor divisions per term, plus the (tiny) tail
PiFx(w) == FxSub(FxMulInt(InvSeries(5, TRUE, w), 16), FxMulInt(InvSeries(239, TRUE, w), 4))        \* Machin
Ln2Fx(w) == FxMulInt(InvSeries(3, FALSE, w), 2)                                                    \* 2 atanh(1/3)

(*************************** exp *******************************************)
\* exp(r) for a fixed-point |r| <= 1/2: halve s = 8 times, Taylor, square back
ExpSmall(r, w) ==
  LET s == 8
      rr == FxShr(r, s)
      n == (w \div 8) + 3
      st == FoldLeft(LAMBDA acc, j :       \* acc = <<sum, term r^j / j!>>
                LET t == FxDivSmall(FxMul(acc[2], rr, w), j)
                IN <<FxAdd(acc[1], t), t>>,
                <<FxInt(1, w), FxInt(1, w)>>, IRange(1, n))
      base == Fx(st[1].v, st[1].e + 2 * (ZToInt(ZShr(ZAbs(st[2].v), 0)) + st[2].e) + 2)       \* tail <= 2 * last term (which is ~0)
  IN FoldLeft(LAMBDA y, i : FxMul(y, y, w), base, IRange(1, s))
\* enclosure of exp(x) for a dyadic x: [lo, hi] * 2^sh
GOf(x) == (IF DyIsZero(x) THEN 0 ELSE IMax(DyTop(x), 0)) + 2
\* Constants shared by several evaluations (one event with many sample points): pi at scale W + 2 and ln 2 at
\* scale W, computed once; coarser scales are obtained by shifting.
Consts(W) == [pi |-> PiFx(W + 2), ln2 |-> Ln2Fx(W), W |-> W]
PiAt(KC, w) == IF w = KC.W THEN KC.pi ELSE FxShr(KC.pi, KC.W - w)           \* pi at scale w + 2  (w <= KC.W)
Ln2At(KC, w) == IF w = KC.W THEN KC.ln2 ELSE FxShr(KC.ln2, KC.W - w)        \* ln 2 at scale w    (w <= KC.W)
NoFx == Fx(ZZero, 0)
ExpEnclK(x, w, KC) ==
  LET g == GOf(x)                                   \* reduce at the finer scale w + g: the error k * err(ln 2) stays small
      W == w + g
      xf == FxOfDy(x, W)
      ln2 == Ln2At(KC, W)
      k == ZToInt(ZDivFloor(ZAdd(ZShl(xf.v, 1), ln2.v), ZShl(ln2.v, 1)))        \* nearest integer to x / ln 2
      r == FxShr(FxSub(xf, FxMulInt(ln2, k)), g)
      y == ExpSmall(r, w)
  IN [lo |-> ZSub(y.v, ZFromInt(y.e)), hi |-> ZAdd(y.v, ZFromInt(y.e)), sh |-> k - w]
ExpEncl(x, w) == ExpEnclK(x, w, [pi |-> NoFx, ln2 |-> Ln2Fx(w + GOf(x)), W |-> w + GOf(x)])

(*************************** log *******************************************)
\* 2 atanh(y) for |y| <= 1/2
Atanh2(y, w) ==
  LET y2 == FxMul(y, y, w)
      n == (w \div 4) + 3
      st == FoldLeft(LAMBDA acc, k :        \* acc = <<sum, power y^(2k+1)>>
                LET pw == FxMul(acc[2], y2, w)
                IN <<FxAdd(acc[1], FxDivSmall(pw, 2 * k + 1)), pw>>,
                <<y, y>>, IRange(1, n))
      tail == 2 * (ZToInt(ZShr(ZAbs(st[2].v), 0)) + st[2].e) + 2
  IN FxMulInt(Fx(st[1].v, st[1].e + tail), 2)
\* enclosure of log(x) for a positive dyadic x
LogEnclK(x, w, KC) ==
  LET top == DyTop(x)                                     \* 2^(top-1) <= x < 2^top
      t0 == FxOfDy(Dy(x.m, x.e - top), w)                 \* x / 2^top in [1/2, 1)
      big == ZCmp(ZMulSmall(t0.v, 10), ZShl(ZFromInt(7), w)) >= 0      \* t0 >= 0.7 ?
      t == IF big THEN t0 ELSE Fx(ZShl(t0.v, 1), 2 * t0.e)              \* t in [0.7, 1.4)
      n == IF big THEN top ELSE top - 1
      y == FxDiv(FxSub(t, FxInt(1, w)), FxAdd(t, FxInt(1, w)), w)
      v == FxAdd(FxMulInt(Ln2At(KC, w), n), Atanh2(y, w))
  IN [lo |-> ZSub(v.v, ZFromInt(v.e)), hi |-> ZAdd(v.v, ZFromInt(v.e)), sh |-> -w]
LogEncl(x, w) == LogEnclK(x, w, [pi |-> NoFx, ln2 |-> Ln2Fx(w), W |-> w])

(*************************** sin, cos, atan ********************************)
\* Taylor sums for |r| <= 0.8: <<sin r, cos r>>
SinCosSmall(r, w) ==
  LET r2 == FxMul(r, r, w)
      n == (w \div 5) + 4
      st == FoldLeft(LAMBDA acc, k :        \* acc = <<sin sum, cos sum, sin term r^(2k-1)/(2k-1)!, cos term r^(2k-2)/(2k-2)!>>
                LET ct == FxDivSmall2(FxMul(acc[4], r2, w), 2 * k - 1, 2 * k)
                    stt == FxDivSmall2(FxMul(acc[3], r2, w), 2 * k, 2 * k + 1)
                    sg == IF k % 2 = 1 THEN -1 ELSE 1
                IN <<IF sg = 1 THEN FxAdd(acc[1], stt) ELSE FxSub(acc[1], stt),
                     IF sg = 1 THEN FxAdd(acc[2], ct) ELSE FxSub(acc[2], ct), stt, ct>>,
                <<r, FxInt(1, w), r, FxInt(1, w)>>, IRange(1, n))
      tl == ZToInt(ZAbs(st[3].v)) + ZToInt(ZAbs(st[4].v)) + st[3].e + st[4].e + 2
  IN <<Fx(st[1].v, st[1].e + tl), Fx(st[2].v, st[2].e + tl)>>
\* sin x and cos x for a dyadic x as fixed-point values.  The argument reduction r = x - k pi/2 is done at the
\* finer scale w + g, g = bit length of |x| + 2, so that the error k * err(pi/2) stays a few units at scale w
SinCosFxK(x, w, KC) ==
  LET g == GOf(x)
      W == w + g
      xf == FxOfDy(x, W)
      hp == FxShr(PiAt(KC, W), 3)                               \* pi/2 at scale W (from pi at scale W+2)
      k == ZToInt(ZDivFloor(ZAdd(ZShl(xf.v, 1), hp.v), ZShl(hp.v, 1)))
      r == FxShr(FxSub(xf, FxMulInt(hp, k)), g)                 \* back at scale w
      sc == SinCosSmall(r, w)
      q == k % 4
  IN <<CASE q = 0 -> sc[1] [] q = 1 -> sc[2] [] q = 2 -> FxNeg(sc[1]) [] OTHER -> FxNeg(sc[2]),
       CASE q = 0 -> sc[2] [] q = 1 -> FxNeg(sc[1]) [] q = 2 -> FxNeg(sc[2]) [] OTHER -> sc[1]>>
SinCosFx(x, w) == SinCosFxK(x, w, [pi |-> PiFx(w + GOf(x) + 2), ln2 |-> NoFx, W |-> w + GOf(x)])
SinCosEnclK(x, w, KC) ==
  LET f == SinCosFxK(x, w, KC)
      E(t) == [lo |-> ZSub(t.v, ZFromInt(t.e)), hi |-> ZAdd(t.v, ZFromInt(t.e)), sh |-> -w]
  IN [s |-> E(f[1]), c |-> E(f[2])]
SinCosEncl(x, w) ==
  LET f == SinCosFx(x, w)
      E(t) == [lo |-> ZSub(t.v, ZFromInt(t.e)), hi |-> ZAdd(t.v, ZFromInt(t.e)), sh |-> -w]
  IN [s |-> E(f[1]), c |-> E(f[2])]
\* atan series for |y| <= 0.42
AtanSmall(y, w) ==
  LET y2 == FxMul(y, y, w)
      n == ((2 * w) \div 5) + 3
      st == FoldLeft(LAMBDA acc, k :
                LET pw == FxMul(acc[2], y2, w)
                    t == FxDivSmall(pw, 2 * k + 1)
                IN <<IF k % 2 = 1 THEN FxSub(acc[1], t) ELSE FxAdd(acc[1], t), pw>>,
                <<y, y>>, IRange(1, n))
  IN Fx(st[1].v, st[1].e + ZToInt(ZAbs(st[2].v)) + st[2].e + 2)
AtanEncl(x, w) ==
  LET neg == DySign(x) < 0
      ax == FxOfDy(DyAbs(x), w)
      one == FxInt(1, w)
      pi4 == FxShr(PiFx(w + 2), 4)
      \* thresholds 0.4143 and 2.4142 as exact fractions 53/128 and 309/128
      small == ZCmp(ZMulSmall(ax.v, 128), ZShl(ZFromInt(53), w)) <= 0
      large == ZCmp(ZMulSmall(ax.v, 128), ZShl(ZFromInt(309), w)) > 0
      v == IF small THEN AtanSmall(ax, w)
           ELSE IF large THEN FxSub(FxMulInt(pi4, 2), AtanSmall(FxDiv(one, ax, w), w))
           ELSE FxAdd(pi4, AtanSmall(FxDiv(FxSub(ax, one), FxAdd(ax, one), w), w))
      sv == IF neg THEN FxNeg(v) ELSE v
  IN [lo |-> ZSub(sv.v, ZFromInt(sv.e)), hi |-> ZAdd(sv.v, ZFromInt(sv.e)), sh |-> -w]
ConstEncl(name, w) ==
  LET f == CASE name = "pi" -> PiFx(w) [] name = "ln2" -> Ln2Fx(w)
             [] name = "degree" -> FxDivSmall(PiFx(w), 180)
  IN [lo |-> ZSub(f.v, ZFromInt(f.e)), hi |-> ZAdd(f.v, ZFromInt(f.e)), sh |-> -w]

(*************************** enclosure algebra ******************************)
\* exact operations on result enclosures [lo, hi] * 2^sh (no rounding: the integers simply grow)
EOf(f, w) == [lo |-> ZSub(f.v, ZFromInt(f.e)), hi |-> ZAdd(f.v, ZFromInt(f.e)), sh |-> -w]
ZMin2(a, b) == IF ZCmp(a, b) <= 0 THEN a ELSE b
ZMax2(a, b) == IF ZCmp(a, b) >= 0 THEN a ELSE b
EAlign(a, sh) == [lo |-> ZShl(a.lo, a.sh - sh), hi |-> ZShl(a.hi, a.sh - sh), sh |-> sh]        \* sh <= a.sh
EAdd(a, b) == LET sh == IMin(a.sh, b.sh)  x == EAlign(a, sh)  y == EAlign(b, sh)
              IN [lo |-> ZAdd(x.lo, y.lo), hi |-> ZAdd(x.hi, y.hi), sh |-> sh]
ENeg(a) == [lo |-> ZNeg(a.hi), hi |-> ZNeg(a.lo), sh |-> a.sh]
ESub(a, b) == EAdd(a, ENeg(b))
EMul(a, b) == LET p1 == ZMul(a.lo, b.lo)  p2 == ZMul(a.lo, b.hi)  p3 == ZMul(a.hi, b.lo)  p4 == ZMul(a.hi, b.hi)
              IN [lo |-> ZMin2(ZMin2(p1, p2), ZMin2(p3, p4)), hi |-> ZMax2(ZMax2(p1, p2), ZMax2(p3, p4)), sh |-> a.sh + b.sh]
EHalf(a) == [a EXCEPT !.sh = a.sh - 1]

(*************************** tan, atan2, complex elementary functions ******)
\* tan x = sin x / cos x; "none" when the cosine enclosure is not bounded away from zero
TanEnclK(x, w, KC) ==
  LET sc == SinCosFxK(x, w, KC)
  IN IF ZCmp(ZAbs(sc[2].v), ZFromInt(sc[2].e + 2)) <= 0 THEN [none |-> TRUE]
     ELSE EOf(FxDiv(sc[1], sc[2], w), w)
\* atan of a fixed-point t in [0, 1] (with its error)
AtanFx01K(t, w, KC) ==
  LET one == FxInt(1, w)
      small == ZCmp(ZMulSmall(t.v, 128), ZShl(ZFromInt(53), w)) <= 0
  IN IF small THEN AtanSmall(t, w)
     ELSE FxAdd(FxShr(PiAt(KC, w), 4), AtanSmall(FxDiv(FxSub(t, one), FxAdd(t, one), w), w))
\* atan2(y, x) for dyadics, not both zero, off the cut (y = 0 /\ x < 0 excluded by the caller)
Atan2EnclK(y, x, w, KC) ==
  LET ax == DyAbs(x)  ay == DyAbs(y)
      ylex == DyCmp(ay, ax) <= 0
      big == IF ylex THEN ax ELSE ay     small == IF ylex THEN ay ELSE ax
      top == DyTop(big)
      bf == FxOfDy(Dy(big.m, big.e - top), w)                  \* in [1/2, 1)
      sf == FxOfDy(Dy(small.m, small.e - top), w)              \* <= bf
      t == IF DyIsZero(small) THEN Fx(ZZero, 0) ELSE FxDiv(sf, bf, w)
      a0 == AtanFx01K(Fx(ZMax2(t.v, ZZero), t.e), w, KC)        \* atan(small / big)
      hp == FxShr(PiAt(KC, w), 3)                                \* pi / 2
      a1 == IF ylex THEN a0 ELSE FxSub(hp, a0)                  \* atan(|y| / |x|) in [0, pi/2]
      a2 == IF DySign(x) >= 0 THEN a1 ELSE FxSub(FxMulInt(hp, 2), a1)
  IN EOf(IF DySign(y) < 0 THEN FxNeg(a2) ELSE a2, w)
CoshSinhEnclK(y, w, KC) ==
  LET ep == ExpEnclK(y, w, KC)  em == ExpEnclK(DyNeg(y), w, KC)
  IN [ch |-> EHalf(EAdd(ep, em)), sh |-> EHalf(ESub(ep, em))]
\* real functions of one dyadic point with shared constants
EnclK(f, x, w, KC) ==
  CASE f = "exp" -> ExpEnclK(x, w, KC) [] f = "log" -> LogEnclK(x, w, KC)
    [] f = "sin" -> SinCosEnclK(x, w, KC).s [] f = "cos" -> SinCosEnclK(x, w, KC).c [] f = "tan" -> TanEnclK(x, w, KC)
\* complex functions at the dyadic point x + iy: <<enclosure of the real part, enclosure of the imaginary part>>
CEnclK(f, x, y, w, KC) ==
  CASE f = "exp" -> LET e == ExpEnclK(x, w, KC)  sc == SinCosEnclK(y, w, KC) IN <<EMul(e, sc.c), EMul(e, sc.s)>>
    [] f = "cos" -> LET sc == SinCosEnclK(x, w, KC)  h == CoshSinhEnclK(y, w, KC) IN <<EMul(sc.c, h.ch), ENeg(EMul(sc.s, h.sh))>>
    [] f = "sin" -> LET sc == SinCosEnclK(x, w, KC)  h == CoshSinhEnclK(y, w, KC) IN <<EMul(sc.s, h.ch), EMul(sc.c, h.sh)>>
    [] f = "log" -> <<EHalf(LogEnclK(DyAdd(DyMul(x, x), DyMul(y, y)), w, KC)), Atan2EnclK(y, x, w, KC)>>

(*************************** judging a result against an enclosure *********)
\* enc = [lo, hi] * 2^sh contains the true value v.  r is the implementation's result (a finite mpf or zero).
\* "bad" only if |r - v| > 2^(tol-p) |v| for EVERY v in the enclosure; "ok" if the bound holds for every v;
\* otherwise "undecided" (the enclosure is too wide for this comparison: never a violation).
EnclJudge(r, enc, tol, p) ==
  LET rd == IF r = FZero THEN DyZero ELSE Val(r)
      lo == Dy(enc.lo, enc.sh)  hi == Dy(enc.hi, enc.sh)
      amax == IF DyCmpAbs(lo, hi) >= 0 THEN DyAbs(lo) ELSE DyAbs(hi)
      amin == IF DySign(lo) # DySign(hi) THEN DyZero ELSE IF DyCmpAbs(lo, hi) <= 0 THEN DyAbs(lo) ELSE DyAbs(hi)
      dlo == DyAbs(DySub(rd, lo))  dhi == DyAbs(DySub(rd, hi))
      dmax == IF DyCmp(dlo, dhi) >= 0 THEN dlo ELSE dhi                 \* largest possible |r - v|
      inside == DyCmp(lo, rd) <= 0 /\ DyCmp(rd, hi) <= 0
      dmin == IF inside THEN DyZero ELSE IF DyCmp(dlo, dhi) <= 0 THEN dlo ELSE dhi   \* smallest possible |r - v|
  IN IF DyCmp(dmax, DyShift(amin, tol - p)) <= 0 THEN "ok"
     ELSE IF DyCmp(dmin, DyShift(amax, tol - p)) > 0 THEN "bad"
     ELSE "undecided"
\* correct rounding of the true value (for the constants): r must be the p-bit rounding of every v in the
\* enclosure; decided only when the whole enclosure lies in one rounding cell
EnclRound(r, enc, p, rnd) ==
  LET a == RoundDy(Dy(enc.lo, enc.sh), p, rnd)  b == RoundDy(Dy(enc.hi, enc.sh), p, rnd)
  IN IF a # b THEN "undecided" ELSE IF r = a THEN "ok" ELSE "bad"
Encl(f, x, w) ==
  CASE f = "exp" -> ExpEncl(x, w) [] f = "log" -> LogEncl(x, w) [] f = "atan" -> AtanEncl(x, w)
    [] f = "sin" -> SinCosEncl(x, w).s [] f = "cos" -> SinCosEncl(x, w).c
\* is the true value (somewhere in enc) a member of the interval v = <<a, b>> (mpf records, infinite ends allowed)?
\* "bad": certainly not; "ok": certainly; "undecided": the enclosure straddles an endpoint
EnclMember(v, enc) ==
  IF "none" \in DOMAIN enc THEN "undecided" ELSE
  LET lo == Dy(enc.lo, enc.sh)  hi == Dy(enc.hi, enc.sh)
      Ge(d) == v[1] = FNInf \/ (v[1] # FInf /\ DyCmp(DV(v[1]), d) <= 0)         \* a <= d
      Le(d) == v[2] = FInf \/ (v[2] # FNInf /\ DyCmp(d, DV(v[2])) <= 0)         \* d <= b
  IN IF ~Ge(hi) \/ ~Le(lo) THEN "bad" ELSE IF Ge(lo) /\ Le(hi) THEN "ok" ELSE "undecided"
=============================================================================
