------------------------------- MODULE MatrixLU -------------------------------
(***************************************************************************)
(* Layer 4: the LU cache of matrix objects (C33, C40).                      *)
(* Each object o has an abstract data version ver[o] (bumped by every       *)
(* mutation), a dimension dim[o] and a cache slot lu[o] that is either      *)
(* None or a record tagged with the data version, dimension and working     *)
(* precision at which it was computed (the tags ver/dim are ghost state;    *)
(* the implementation stores only the precision).  Actions transcribe       *)
(* matrix.__setitem__ (invalidate), the rows/cols setters (invalidate),     *)
(* copy (fresh object, empty cache), the context precision setter, and      *)
(* LU_decomp(use_cache): hit iff the slot is filled and its precision is    *)
(* at least the current one; otherwise factorise, fill the slot.            *)
(*   LUFresh          a hit returns a factorisation of the current data at  *)
(*                    at least the current precision                        *)
(*   CopyIndependent  mutating one object never changes another's version   *)
(*                    or cache                                              *)
(* hist records, for every step, the action and the projection the harness  *)
(* must observe on the real objects (slot filled?, hit?): cfg/*_paths.cfg   *)
(* enumerates every history up to the depth bound and prints it for M2.     *)
(***************************************************************************)
EXTENDS Integers, Sequences, FiniteSets, TLC, Json
CONSTANTS Objs, Dims, Precs, Depth
VARIABLES ver, dim, lu, prec, fresh, hist, lastHit, p0
vars == <<ver, dim, lu, prec, fresh, hist, lastHit, p0>>
None == [k |-> "none"]

Init == /\ ver = [o \in Objs |-> 0] /\ dim = [o \in Objs |-> CHOOSE d \in Dims : \A e \in Dims : d >= e]
        /\ lu = [o \in Objs |-> None] /\ prec \in Precs /\ fresh = 1 /\ hist = <<>> /\ lastHit = [k |-> "none"] /\ p0 = prec

Proj == [o \in Objs |-> lu[o] # None]
Log(a) == hist' = Append(hist, a)

SetItem(o) == /\ ver' = [ver EXCEPT ![o] = fresh] /\ fresh' = fresh + 1
              /\ lu' = [lu EXCEPT ![o] = None]
              /\ UNCHANGED <<dim, prec>> /\ lastHit' = [k |-> "none"]
              /\ Log([a |-> "SetItem", o |-> o, filled |-> [Proj EXCEPT ![o] = FALSE]])
Resize(o, d) == /\ d # dim[o]
                /\ dim' = [dim EXCEPT ![o] = d] /\ ver' = [ver EXCEPT ![o] = fresh] /\ fresh' = fresh + 1
                /\ lu' = [lu EXCEPT ![o] = None]
                /\ UNCHANGED prec /\ lastHit' = [k |-> "none"]
                /\ Log([a |-> "Resize", o |-> o, d |-> d, filled |-> [Proj EXCEPT ![o] = FALSE]])
Copy(o, q) == /\ o # q
              /\ ver' = [ver EXCEPT ![q] = ver[o]] /\ dim' = [dim EXCEPT ![q] = dim[o]]
              /\ lu' = [lu EXCEPT ![q] = None]
              /\ UNCHANGED <<prec, fresh>> /\ lastHit' = [k |-> "none"]
              /\ Log([a |-> "Copy", o |-> o, q |-> q, filled |-> [Proj EXCEPT ![q] = FALSE]])
SetPrec(p) == /\ p # prec /\ prec' = p
              /\ UNCHANGED <<ver, dim, lu, fresh>> /\ lastHit' = [k |-> "none"]
              /\ Log([a |-> "SetPrec", p |-> p, filled |-> Proj])
LUDecomp(o, useCache) ==
  LET hit == useCache /\ lu[o] # None /\ lu[o].prec >= prec
  IN /\ lu' = IF hit THEN lu ELSE [lu EXCEPT ![o] = [k |-> "lu", ver |-> ver[o], dim |-> dim[o], prec |-> prec]]
     /\ lastHit' = [k |-> "dec", o |-> o, hit |-> hit, slot |-> lu[o]]
     /\ UNCHANGED <<ver, dim, prec, fresh>>
     /\ Log([a |-> "LUDecomp", o |-> o, cache |-> useCache, hit |-> hit, filled |-> [Proj EXCEPT ![o] = TRUE]])

Next == /\ Len(hist) < Depth /\ p0' = p0
        /\ \/ \E o \in Objs : SetItem(o)
           \/ \E o \in Objs, d \in Dims : Resize(o, d)
           \/ \E o, q \in Objs : Copy(o, q)
           \/ \E p \in Precs : SetPrec(p)
           \/ \E o \in Objs, c \in BOOLEAN : LUDecomp(o, c)
Spec == Init /\ [][Next]_vars

LUFresh == (lastHit.k = "dec" /\ lastHit.hit) =>
             /\ lastHit.slot.ver = ver[lastHit.o] /\ lastHit.slot.dim = dim[lastHit.o]
             /\ lastHit.slot.prec >= prec
CopyIndependent ==
  [][\A o \in Objs : (\E a \in {"SetItem", "Resize"} : hist' # hist /\ hist'[Len(hist')].a = a /\ hist'[Len(hist')].o # o)
        => (ver'[o] = ver[o] /\ lu'[o] = lu[o] /\ dim'[o] = dim[o])]_vars
Emit == Len(hist) = Depth => PrintT(<<"HIST", ToJson([p0 |-> p0, h |-> hist])>>)
View == <<ver, dim, lu, prec, lastHit>>
VerBound == fresh <= 5
=============================================================================
