------------------------------- MODULE DecPost -------------------------------
(***************************************************************************)
(* Layer 3: decimal literals (C07, C08).                                    *)
(* DecVal parses a byte sequence  [+-] digits [. digits] [e [+-] digits]    *)
(* (the intersection of what float() and Decimal() accept) to an exact      *)
(* value (-1)^neg * N * 10^E with a count of significant digits.            *)
(*   PostFromStr   the mpf made from a literal is the correctly rounded     *)
(*                 value when 10^-100 <= |v| <= 10^100, and for directed    *)
(*                 modes is never on the wrong side of v                    *)
(*   PostReprRoundTrip   parsing the printed literal at the same precision  *)
(*                 gives back x:  x = Round(DecVal(text), prec, nearest)    *)
(*   PostNearestDigits   the literal has at most n significant digits and   *)
(*                 no n-digit decimal is strictly closer to x               *)
(* All comparisons are exact: 10^E = 5^E * 2^E, powers of 5 on limbs.       *)
(***************************************************************************)
EXTENDS Integers, Sequences, SequencesExt
CONSTANTS ZZero, ZOne, ZFromInt(_), ZToInt(_), ZSign(_), ZIsZero(_), ZNeg(_), ZAbs(_),
          ZAdd(_, _), ZSub(_, _), ZMul(_, _), ZMulSmall(_, _), ZCmp(_, _),
          ZShl(_, _), ZShr(_, _), ZBitLen(_), ZTrailing(_), ZIsOdd(_),
          ZLowZero(_, _), ZBit(_, _), ZPow(_, _), ZPow2(_), ZDivFloor(_, _), ZMod(_, _)
INSTANCE MpiPost

IsDigit(b) == b >= 48 /\ b <= 57
Pow10N(k) == CASE k = 0 -> 1 [] k = 1 -> 10 [] k = 2 -> 100 [] k = 3 -> 1000 [] k = 4 -> 10000 [] k = 5 -> 100000 [] OTHER -> 1000000
\* mantissa digits are accumulated natively six at a time (acc, cnt) and flushed into the big integer N
Flush(s) == [s EXCEPT !.N = ZAdd(ZMulSmall(s.N, Pow10N(s.cnt)), ZFromInt(s.acc)), !.acc = 0, !.cnt = 0]
\* parser state: ph 0 start, 1 integer digits, 2 fraction digits, 3 exponent sign, 4 exponent digits, 9 error
\* nd = digits from the first nonzero one on, sd = the same without trailing zeros, fdig = first nonzero digit
PStep(s0, b) ==
  LET s == IF s0.cnt = 6 THEN Flush(s0) ELSE s0 IN
  IF s.ph = 9 THEN s
  ELSE IF IsDigit(b) THEN
       (IF s.ph \in {0, 1, 2}
        THEN [s EXCEPT !.ph = IF s.ph = 0 THEN 1 ELSE s.ph,
                       !.acc = s.acc * 10 + (b - 48), !.cnt = s.cnt + 1,
                       !.nd = IF s.nd > 0 \/ b # 48 THEN s.nd + 1 ELSE 0,
                       !.sd = IF b # 48 THEN s.nd + 1 ELSE s.sd,
                       !.fdig = IF s.nd = 0 /\ b # 48 THEN b - 48 ELSE s.fdig,
                       !.fd = IF s.ph = 2 THEN s.fd + 1 ELSE s.fd,
                       !.seen = TRUE]
        ELSE [s EXCEPT !.ph = 4, !.ex = IF s.ex < 100000000 THEN s.ex * 10 + (b - 48) ELSE s.ex, !.eseen = TRUE])
  ELSE IF b \in {43, 45} THEN
       (IF s.ph = 0 /\ ~s.sgn THEN [s EXCEPT !.neg = (b = 45), !.sgn = TRUE]
        ELSE IF s.ph = 3 /\ ~s.esgn THEN [s EXCEPT !.eneg = (b = 45), !.esgn = TRUE]
        ELSE [s EXCEPT !.ph = 9])
  ELSE IF b = 46 THEN (IF s.ph \in {0, 1} THEN [s EXCEPT !.ph = 2] ELSE [s EXCEPT !.ph = 9])
  ELSE IF b \in {69, 101} THEN (IF s.ph \in {1, 2} /\ s.seen THEN [s EXCEPT !.ph = 3] ELSE [s EXCEPT !.ph = 9])
  ELSE [s EXCEPT !.ph = 9]
PInit == [ph |-> 0, neg |-> FALSE, sgn |-> FALSE, N |-> ZZero, acc |-> 0, cnt |-> 0, nd |-> 0, sd |-> 0, fdig |-> 0,
          fd |-> 0, seen |-> FALSE, eneg |-> FALSE, esgn |-> FALSE, ex |-> 0, eseen |-> FALSE]
DecVal(bytes) ==
  LET s == Flush(FoldLeft(PStep, PInit, bytes))
      ok == s.ph \in {1, 2, 4} /\ s.seen /\ (s.ph = 4 => s.eseen)
  IN [ok |-> ok, neg |-> s.neg, N |-> s.N, E |-> (IF s.eneg THEN -s.ex ELSE s.ex) - s.fd, nd |-> s.nd, sd |-> s.sd, fdig |-> s.fdig]
IsSpecialText(bytes) == bytes \in {<<43, 105, 110, 102>>, <<45, 105, 110, 102>>, <<110, 97, 110>>, <<105, 110, 102>>}

Pow5(k) == ZPow(ZFromInt(5), k)
\* N * 10^E as a rational  num/den * 2^k  (num, den naturals)
DecQ(N, E) == IF E >= 0 THEN [num |-> ZMul(N, Pow5(E)), den |-> ZOne, k |-> E]
              ELSE [num |-> N, den |-> Pow5(-E), k |-> E]
\* sign(|x| - D * 10^E) for a dyadic x and natural D
CmpDyDec(x, D, E) ==
  IF E >= 0 THEN DyCmp(DyAbs(x), Dy(ZMul(D, Pow5(E)), E))
  ELSE DyCmp(DyMul(DyAbs(x), Dy(Pow5(-E), 0)), Dy(D, E))

\* v strictly inside [10^-100, 10^100], decided from the digit count
InRange100(d) == d.nd > 0 /\ d.E + d.nd - 1 >= -100 /\ d.E + d.nd <= 100
PostFromStr(bytes, p, rnd, o) ==
  LET d == DecVal(bytes) IN
  IF ~d.ok THEN o.k = "x"
  ELSE IF ZIsZero(d.N) THEN o.k = "f" /\ o.v = FZero
  ELSE LET q == DecQ(d.N, d.E)  r == o.v IN
       /\ o.k = "f" /\ IsFin(r) /\ Canonical(r) /\ r.s = (IF d.neg THEN 1 ELSE 0)
       /\ (InRange100(d) => IsRoundQ2(r, d.neg, q.num, q.den, q.k, p, rnd))
       /\ LET c == CmpQ2(q.num, q.den, q.k, r.m, r.e)          \* sign(|v| - |r|)
          IN /\ (Toward(rnd, d.neg) => c >= 0)
             /\ (Away(rnd, d.neg) => c <= 0)

\* repr(x): the text (without the mpf('...') wrapper) parses, and rounds back to x at precision p
PostReprRoundTrip(x, bytes, p) ==
  IF ~IsFinite(x) THEN IsSpecialText(bytes)
  ELSE LET d == DecVal(bytes) IN
       /\ d.ok
       /\ IF x = FZero THEN ZIsZero(d.N)
          ELSE LET q == DecQ(d.N, d.E) IN IsRoundQ2(x, d.neg, q.num, q.den, q.k, p, "n")

\* nstr(x, n): parseable, at most n significant digits, a nearest n-digit decimal to x.
\* d.nd = digits from the first nonzero one to the last written, d.sd = the same without trailing
\* zeros, d.fdig = first nonzero digit.  The unit of the n-th significant digit is 10^Eu.
Pow10Z(k) == ZPow(ZFromInt(10), k)
PostNearestDigits(x, bytes, n) ==
  IF ~IsFinite(x) THEN IsSpecialText(bytes)
  ELSE LET d == DecVal(bytes) IN
       /\ d.ok
       /\ IF x = FZero THEN ZIsZero(d.N)
          ELSE /\ ~ZIsZero(d.N) /\ d.neg = (x.s = 1)
               /\ d.sd <= n
               /\ LET Eu == d.E + d.nd - n                       \* exponent of the unit in the n-th digit
                      pow10 == d.sd = 1 /\ d.fdig = 1            \* the decimal is a power of ten: finer grid below
                      El == IF pow10 THEN Eu - 1 ELSE Eu          \* half-width below is 10^El / 2
                      Em == IMin(d.E, El)
                      twoD == ZMul(ZMulSmall(d.N, 2), Pow10Z(d.E - Em))
                      x2 == DyShift(DyAbs(Val(x)), 1)
                  IN /\ CmpDyDec(x2, ZAdd(twoD, Pow10Z(Eu - Em)), Em) <= 0
                     /\ CmpDyDec(x2, ZSub(twoD, Pow10Z(El - Em)), Em) >= 0
=============================================================================
