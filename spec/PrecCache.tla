------------------------------- MODULE PrecCache -------------------------------
(***************************************************************************)
(* Layer 4: the "key |-> (cached precision, value)" cache pattern shared by  *)
(* log_int_cache, zeta_int_cache and the other precision-tagged caches       *)
(* (C33).  A lookup at precision p hits iff the key is cached at precision   *)
(* >= p + Need; otherwise the value is computed at p + Extra bits and stored *)
(* (only if better, when StoreIfBetter).  Abort models an exception escaping *)
(* from the computation of a miss: nothing is stored.                        *)
(*   NoStaleHit  a hit is answered from data at least as accurate as a fresh *)
(*               computation of this request would be ... or better          *)
(*   AbortSafe   an aborted lookup leaves the cache unchanged                 *)
(* hist carries, per step, the projection (cached precision per key, -1 for   *)
(* absent) that the harness compares with the real cache dict (M2).           *)
(***************************************************************************)
EXTENDS Integers, Sequences, TLC, Json
CONSTANTS Keys, Precs, Need, Extra, StoreIfBetter, Depth
VARIABLES cp, hist, last
vars == <<cp, hist, last>>
Init == cp = [k \in Keys |-> -1] /\ hist = <<>> /\ last = [a |-> "none"]
Lookup(k, p) ==
  LET hit == cp[k] >= p + Need
      store == ~hit /\ (~StoreIfBetter \/ cp[k] < p + Extra)
      cp2 == IF store THEN [cp EXCEPT ![k] = p + Extra] ELSE cp
  IN /\ cp' = cp2
     /\ last' = [a |-> "Lookup", k |-> k, p |-> p, hit |-> hit, acc |-> IF hit THEN cp[k] ELSE p + Extra]
     /\ hist' = Append(hist, [a |-> "Lookup", k |-> k, p |-> p, hit |-> hit, cp |-> cp2])
Abort(k, p) ==
  /\ cp[k] < p + Need                         \* only a miss computes anything
  /\ cp' = cp
  /\ last' = [a |-> "Abort", k |-> k, p |-> p]
  /\ hist' = Append(hist, [a |-> "Abort", k |-> k, p |-> p, cp |-> cp])
Next == /\ Len(hist) < Depth
        /\ \E k \in Keys, p \in Precs : Lookup(k, p) \/ Abort(k, p)
Spec == Init /\ [][Next]_vars
NoStaleHit == last.a = "Lookup" => last.acc >= last.p + Need
AbortSafe == [][hist' # hist /\ hist'[Len(hist')].a = "Abort" => cp' = cp]_vars
Emit == Len(hist) = Depth => PrintT(<<"HIST", ToJson([h |-> hist])>>)
=============================================================================
