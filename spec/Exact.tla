-------------------------------- MODULE Exact --------------------------------
(***************************************************************************)
(* Layer 1+2: exact numbers, the rounding oracle and the mpf format, over   *)
(* the abstract integer signature ZSig (instantiated by ZNat for the small- *)
(* universe models and by ZLimb for trace validation).                      *)
(*                                                                         *)
(*   dyadic   [m |-> signed Z, e |-> native int]          value m * 2^e     *)
(*   mpf      [s |-> 0|1, m |-> Z >= 0, e |-> int, bc |-> int]  raw tuple   *)
(*                                                                         *)
(* "r is the value of v correctly rounded to p bits in mode rnd" is stated  *)
(* as  v \in Cell(r, p, rnd): the set of reals that round to r.  Cells have *)
(* dyadic end points, so membership needs only a comparison of v with a    *)
(* dyadic; rationals, square roots, powers and series enclosures each      *)
(* supply their own comparison (multiplication only, no division).         *)
(* RoundDy / RoundQ are the functional forms; RoundingLemmas (M1) checks    *)
(* that the two forms agree on a whole small universe.                      *)
(***************************************************************************)
EXTENDS Integers, Sequences

CONSTANTS ZZero, ZOne, ZFromInt(_), ZToInt(_), ZSign(_), ZIsZero(_), ZNeg(_), ZAbs(_),
          ZAdd(_, _), ZSub(_, _), ZMul(_, _), ZMulSmall(_, _), ZCmp(_, _),
          ZShl(_, _), ZShr(_, _), ZBitLen(_), ZTrailing(_), ZIsOdd(_),
          ZLowZero(_, _), ZBit(_, _), ZPow(_, _), ZPow2(_), ZDivFloor(_, _), ZMod(_, _)

IMax(x, y) == IF x >= y THEN x ELSE y
IMin(x, y) == IF x <= y THEN x ELSE y
IAbs(x) == IF x < 0 THEN -x ELSE x
Modes == {"n", "f", "c", "d", "u"}

(*************************** dyadics ***************************************)
Dy(m, e) == [m |-> m, e |-> e]
DyZero == Dy(ZZero, 0)
DyIsZero(d) == ZIsZero(d.m)
DySign(d) == ZSign(d.m)
DyNeg(d) == Dy(ZNeg(d.m), d.e)
DyAbs(d) == Dy(ZAbs(d.m), d.e)
DyTop(d) == d.e + ZBitLen(d.m)              \* 2^(top-1) <= |d| < 2^top  (d # 0)
DyMul(a, b) == Dy(ZMul(a.m, b.m), a.e + b.e)
DyShift(d, k) == Dy(d.m, d.e + k)
\* exact sum; the caller is responsible for the exponent gap being materialisable
DyAdd(a, b) ==
  IF DyIsZero(a) THEN b ELSE IF DyIsZero(b) THEN a ELSE
  LET e == IMin(a.e, b.e)
  IN Dy(ZAdd(ZShl(a.m, a.e - e), ZShl(b.m, b.e - e)), e)
DySub(a, b) == DyAdd(a, DyNeg(b))
\* comparison without materialising shifts larger than the operand lengths
DyCmpAbs(a, b) ==
  IF DyIsZero(a) THEN (IF DyIsZero(b) THEN 0 ELSE -1)
  ELSE IF DyIsZero(b) THEN 1
  ELSE IF DyTop(a) # DyTop(b) THEN (IF DyTop(a) < DyTop(b) THEN -1 ELSE 1)
  ELSE LET e == IMin(a.e, b.e)
       IN ZCmp(ZShl(ZAbs(a.m), a.e - e), ZShl(ZAbs(b.m), b.e - e))
DyCmp(a, b) ==
  LET sa == DySign(a)  sb == DySign(b)
  IN IF sa # sb THEN (IF sa < sb THEN -1 ELSE 1)
     ELSE IF sa = 0 THEN 0
     ELSE IF sa > 0 THEN DyCmpAbs(a, b) ELSE DyCmpAbs(b, a)
DyEq(a, b) == DyCmp(a, b) = 0
DyIsInt(d) == DyIsZero(d) \/ d.e >= 0 \/ ZLowZero(d.m, -d.e)
\* floor(d) as a Z; |d.e| is materialised only when the integer part is nonzero
DyFloor(d) ==
  IF d.e >= 0 THEN ZShl(d.m, d.e)
  ELSE IF DyTop(d) <= 0 THEN (IF DySign(d) < 0 THEN ZNeg(ZOne) ELSE ZZero)
  ELSE ZShr(d.m, -d.e)
DyFromZ(z) == Dy(z, 0)

(*************************** the mpf format ********************************)
Mpf(s, m, e, bc) == [s |-> s, m |-> m, e |-> e, bc |-> bc]
FZero == Mpf(0, ZZero, 0, 0)
FInf  == Mpf(0, ZZero, -456, -2)
FNInf == Mpf(1, ZZero, -789, -3)
FNan  == Mpf(0, ZZero, -123, -1)
FSpecials == {FZero, FInf, FNInf, FNan}
IsFin(x) == ~ZIsZero(x.m)                    \* finite and nonzero
IsFinite(x) == IsFin(x) \/ x = FZero
Canonical(x) ==
  \/ x \in FSpecials
  \/ /\ x.s \in {0, 1} /\ ZSign(x.m) = 1 /\ ZIsOdd(x.m) /\ x.bc = ZBitLen(x.m)
Val(x) == Dy(IF x.s = 1 THEN ZNeg(x.m) ELSE x.m, x.e)          \* x finite
Encode(d) ==
  IF DyIsZero(d) THEN FZero
  ELSE LET a == ZAbs(d.m)  t == ZTrailing(a)  m2 == ZShr(a, t)
       IN Mpf(IF ZSign(d.m) < 0 THEN 1 ELSE 0, m2, d.e + t, ZBitLen(m2))
BitsLe(x, p) == ZIsZero(x.m) \/ ZBitLen(x.m) <= p
FNeg(x) == IF x = FInf THEN FNInf ELSE IF x = FNInf THEN FInf
           ELSE IF IsFin(x) THEN [x EXCEPT !.s = 1 - x.s] ELSE x
FSignum(x) == IF x = FInf THEN 1 ELSE IF x = FNInf THEN -1
              ELSE IF IsFin(x) THEN (IF x.s = 1 THEN -1 ELSE 1) ELSE 0
FScale(x, k) == IF IsFin(x) THEN [x EXCEPT !.e = x.e + k] ELSE x

(*************************** rounding **************************************)
Away(rnd, neg)   == rnd = "u" \/ (rnd = "c" /\ ~neg) \/ (rnd = "f" /\ neg)
Toward(rnd, neg) == rnd = "d" \/ (rnd = "f" /\ ~neg) \/ (rnd = "c" /\ neg)

\* functional form for a dyadic (exactly the definition: keep p bits, decide the increment)
RoundDy(d, p, rnd) ==
  IF DyIsZero(d) THEN FZero ELSE
  LET neg == ZSign(d.m) < 0
      a == ZAbs(d.m)
      bc == ZBitLen(a)
  IN IF bc <= p THEN Encode(d) ELSE
     LET sh == bc - p
         q == ZShr(a, sh)
         exact == ZLowZero(a, sh)
         half == ZBit(a, sh - 1) = 1
         below == ZLowZero(a, sh - 1)
         inc == IF exact THEN FALSE
                ELSE IF Away(rnd, neg) THEN TRUE
                ELSE IF Toward(rnd, neg) THEN FALSE
                ELSE half /\ (~below \/ ZIsOdd(q))
         q2 == IF inc THEN ZAdd(q, ZOne) ELSE q
     IN Encode(Dy(IF neg THEN ZNeg(q2) ELSE q2, d.e + sh))

\* floor(log2(N/D)) for naturals N, D > 0
Ilog2Q(N, D) ==
  LET k0 == ZBitLen(N) - ZBitLen(D)
      ge == IF k0 >= 0 THEN ZCmp(N, ZShl(D, k0)) >= 0 ELSE ZCmp(ZShl(N, -k0), D) >= 0
  IN IF ge THEN k0 ELSE k0 - 1

\* functional form for a rational (-1)^neg * N/D, N >= 0, D > 0
RoundQ(neg, N, D, p, rnd) ==
  IF ZIsZero(N) THEN FZero ELSE
  LET k == Ilog2Q(N, D)
      sh == p - 1 - k
      num == IF sh >= 0 THEN ZShl(N, sh) ELSE N
      den == IF sh >= 0 THEN D ELSE ZShl(D, -sh)
      q == ZDivFloor(num, den)
      r == ZSub(num, ZMul(q, den))
      exact == ZIsZero(r)
      h == ZCmp(ZShl(r, 1), den)
      inc == IF exact THEN FALSE
             ELSE IF Away(rnd, neg) THEN TRUE
             ELSE IF Toward(rnd, neg) THEN FALSE
             ELSE h > 0 \/ (h = 0 /\ ZIsOdd(q))
      q2 == IF inc THEN ZAdd(q, ZOne) ELSE q
  IN Encode(Dy(IF neg THEN ZNeg(q2) ELSE q2, -sh))

\* rounding of a + b for finite nonzero dyadics whatever the exponent gap (sticky bit)
RoundSum(a, b, p, rnd) ==
  LET big == IF DyTop(a) >= DyTop(b) THEN a ELSE b
      small == IF DyTop(a) >= DyTop(b) THEN b ELSE a
      k == IMin(big.e - 2, big.e + ZBitLen(big.m) - p - 4)
  IN IF DyTop(small) <= k
     THEN RoundDy(Dy(ZAdd(ZShl(big.m, big.e - k), ZFromInt(DySign(small))), k), p, rnd)
     ELSE RoundDy(DyAdd(a, b), p, rnd)

(*************************** rounding cells ********************************)
(* For a finite nonzero canonical r with at most p bits, scaled to exactly  *)
(* p bits (M * 2^E, 2^(p-1) <= M < 2^p), the reals whose magnitude rounds   *)
(* to |r| form an interval with end points lo*2^e, hi*2^e (e = E-2).        *)
(* At p = 1 both neighbours of a tie have odd one-bit mantissas and "ties   *)
(* to even" does not select one; either is accepted.                        *)
(***************************************************************************)
Cell(r, p, rnd) ==
  LET neg == r.s = 1
      M4 == ZShl(r.m, p - r.bc + 2)
      pow2 == r.bc = 1
      even == r.bc < p
      e == r.e - (p - r.bc) - 2
  IN IF Toward(rnd, neg)
       THEN [lo |-> M4, loC |-> TRUE, hi |-> ZAdd(M4, ZFromInt(4)), hiC |-> FALSE, e |-> e]
     ELSE IF Away(rnd, neg)
       THEN [lo |-> ZSub(M4, ZFromInt(IF pow2 THEN 2 ELSE 4)), loC |-> FALSE,
             hi |-> M4, hiC |-> TRUE, e |-> e]
     ELSE [lo |-> ZSub(M4, ZFromInt(IF pow2 THEN 1 ELSE 2)), loC |-> pow2 \/ even \/ p = 1,
           hi |-> ZAdd(M4, ZFromInt(2)), hiC |-> even \/ p = 1, e |-> e]
\* cl = sign(|v| - lo*2^e), ch = sign(|v| - hi*2^e)
InCell(c, cl, ch) == /\ (cl > 0 \/ (cl = 0 /\ c.loC))
                     /\ (ch < 0 \/ (ch = 0 /\ c.hiC))
\* the cell of values within k ulps (k native >= 1) of |r| at precision p, closed
CellUlps(r, p, k) ==
  LET M4 == ZShl(r.m, p - r.bc + 2)
  IN [lo |-> ZSub(M4, ZFromInt(4 * k)), loC |-> TRUE, hi |-> ZAdd(M4, ZFromInt(4 * k)), hiC |-> TRUE,
      e |-> r.e - (p - r.bc) - 2]
RoundedShape(r, neg, p) == IsFin(r) /\ Canonical(r) /\ r.bc <= p /\ r.s = (IF neg THEN 1 ELSE 0)

\* sign(N/D * 2^k - m * 2^e) for naturals N, D > 0, m >= 0 -- multiplication only
CmpQ2(N, D, k, m, e) ==
  IF ZIsZero(m) THEN (IF ZIsZero(N) THEN 0 ELSE 1) ELSE
  IF ZIsZero(N) THEN -1 ELSE
  LET t == e - k
      A == ZBitLen(N) + IMax(0, -t)
      Bmin == ZBitLen(D) + ZBitLen(m) - 1 + IMax(0, t)
  IN IF A < Bmin THEN -1
     ELSE IF A > Bmin + 1 THEN 1
     ELSE IF t >= 0 THEN ZCmp(N, ZShl(ZMul(D, m), t))
     ELSE ZCmp(ZShl(N, -t), ZMul(D, m))

\* checker form: r is (-1)^neg * N/D * 2^k correctly rounded
IsRoundQ2(r, neg, N, D, k, p, rnd) ==
  IF ZIsZero(N) THEN r = FZero ELSE
  /\ RoundedShape(r, neg, p)
  /\ LET c == Cell(r, p, rnd)
     IN InCell(c, CmpQ2(N, D, k, c.lo, c.e), CmpQ2(N, D, k, c.hi, c.e))
IsRoundQ(r, neg, N, D, p, rnd) == IsRoundQ2(r, neg, N, D, 0, p, rnd)
\* checker form for a dyadic value (also usable where RoundDy is)
IsRoundDy(r, d, p, rnd) == IsRoundQ2(r, DySign(d) < 0, ZAbs(d.m), ZOne, d.e, p, rnd)
\* r is within k ulps (of precision p) of the rational, and has the right sign and shape
WithinUlpsQ2(r, neg, N, D, k2, p, k) ==
  IF ZIsZero(N) THEN r = FZero ELSE
  /\ RoundedShape(r, neg, p)
  /\ LET c == CellUlps(r, p, k)
     IN InCell(c, CmpQ2(N, D, k2, c.lo, c.e), CmpQ2(N, D, k2, c.hi, c.e))

\* sign(sqrt(x) - m*2^e) for a positive dyadic x and m >= 0
CmpSqrt(x, m, e) == DyCmp(x, Dy(ZMul(m, m), 2 * e))
IsRoundSqrt(r, x, p, rnd) ==
  /\ RoundedShape(r, FALSE, p)
  /\ LET c == Cell(r, p, rnd)
     IN InCell(c, CmpSqrt(x, c.lo, c.e), CmpSqrt(x, c.hi, c.e))

\* r (any finite mpf or zero) is not on the wrong side of the exact rational value v
\* for a directed mode: f: r <= v, c: r >= v, d: |r| <= |v|, u: |r| >= |v|.  cmp = sign(r - v)
SideOK(rnd, cmp, vneg) ==
  CASE rnd = "f" -> cmp <= 0
    [] rnd = "c" -> cmp >= 0
    [] rnd = "d" -> (IF vneg THEN cmp >= 0 ELSE cmp <= 0)
    [] rnd = "u" -> (IF vneg THEN cmp <= 0 ELSE cmp >= 0)
    [] OTHER -> TRUE
=============================================================================
