------------------------------- MODULE LoopSkel -------------------------------
(***************************************************************************)
(* C24: control skeletons of the retry / summation loops named by the       *)
(* property, with the numerics abstracted to nondeterministic outcomes.     *)
(*  hyp   hypsum / hypercomb: retry with extraprec' = 2*extraprec + 5 until  *)
(*        the summator reports an accurate result, ValueError once          *)
(*        extraprec > maxprec.  Terminates STRUCTURALLY: whatever the        *)
(*        summator answers, extraprec grows strictly and is bounded.        *)
(*  psi0  mpf_psi0 asymptotic loop: integer term magnitudes, exit when the  *)
(*        term stops decreasing or reaches zero.  Structural as well.        *)
(*  cpsi  mpc_psi0 / mpc_psi: `while |term| > eps` with no divergence guard: *)
(*        termination depends on the numerics (terms must eventually fall    *)
(*        below eps).  With arbitrary term magnitudes TLC exhibits the lasso *)
(*        (cfg/LoopSkel_cpsi.cfg expects the liveness violation), which is   *)
(*        why C24 also needs the observed work budget on real executions.    *)
(***************************************************************************)
EXTENDS Integers
CONSTANTS MaxPrec, Loop, TermMax
VARIABLES pc, extraprec, term, prev
vars == <<pc, extraprec, term, prev>>
Init == pc = "loop" /\ extraprec = 50 /\ term \in 0..TermMax /\ prev = TermMax + 1

HypStep ==
  /\ Loop = "hyp" /\ pc = "loop"
  /\ IF extraprec > MaxPrec THEN pc' = "raised" /\ UNCHANGED <<extraprec, term, prev>>
     ELSE \/ pc' = "done" /\ UNCHANGED <<extraprec, term, prev>>              \* summator accurate
          \/ extraprec' = 2 * extraprec + 5 /\ UNCHANGED <<pc, term, prev>>   \* retry
Psi0Step ==
  /\ Loop = "psi0" /\ pc = "loop"
  /\ IF term = 0 \/ term >= prev THEN pc' = "done" /\ UNCHANGED <<extraprec, term, prev>>
     ELSE /\ prev' = term /\ term' \in 0..TermMax /\ UNCHANGED <<pc, extraprec>>
CPsiStep ==
  /\ Loop = "cpsi" /\ pc = "loop"
  /\ IF term = 0 THEN pc' = "done" /\ UNCHANGED <<extraprec, term, prev>>
     ELSE term' \in 0..TermMax /\ UNCHANGED <<pc, extraprec, prev>>
Next == HypStep \/ Psi0Step \/ CPsiStep
Spec == Init /\ [][Next]_vars /\ WF_vars(Next)
Terminates == <>(pc \in {"done", "raised"})
Bounded == extraprec <= 2 * MaxPrec + 5
=============================================================================
