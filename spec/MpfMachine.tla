------------------------------ MODULE MpfMachine ------------------------------
(* MpfMachineCore on native integers (exhaustive small universes, scaled constants). *)
EXTENDS ZNat
CONSTANTS MB, ES, EB, PS, FAR, G, DX, Depth, Ops, GROW, WK
VARIABLES a, b, st, depth
INSTANCE MpfMachineCore
ESQuick == -2..2
ESThorough == -3..3
=============================================================================
