------------------------------ MODULE MpfMachine ------------------------------
(* MpfMachineCore on native integers (exhaustive small universes, scaled constants). *)
EXTENDS ZNat
CONSTANTS MB, ES, EB, PS, FAR, G, DX, PT, Depth, Ops, GROW, WK, NS, UNARY
VARIABLES a, b, st, depth
INSTANCE MpfMachineCore
ESQuick == -2..2
NSQuick == {-5, -3, -2, -1, 0, 1, 2, 3, 4, 5, 7}
ESThorough == -3..3
=============================================================================
