------------------------------- MODULE ZLimb -------------------------------
(***************************************************************************)
(* Layer 0: the integer signature "ZSig" realised on signed limb numbers.  *)
(* An integer is <<sgn, mag>>, sgn \in {0,1}, mag a canonical NatLimb      *)
(* natural; zero is <<0, <<>>>>.  Every module above this layer is written  *)
(* against the operator names defined here and in ZNat (same names, native *)
(* integers) and is INSTANCEd over one or the other.                       *)
(***************************************************************************)
EXTENDS NatLimb

ZZero == <<0, <<>>>>
ZOne  == <<0, <<1>>>>
ZMk(s, m) == IF Len(m) = 0 THEN ZZero ELSE <<s, m>>
ZFromInt(n) == IF n >= 0 THEN ZMk(0, NFromInt(n)) ELSE ZMk(1, NFromInt(-n))
ZToInt(x) == IF x[1] = 0 THEN NToInt(x[2]) ELSE -NToInt(x[2])
ZSign(x) == IF Len(x[2]) = 0 THEN 0 ELSE IF x[1] = 0 THEN 1 ELSE -1
ZIsZero(x) == Len(x[2]) = 0
ZNeg(x) == ZMk(1 - x[1], x[2])
ZAbs(x) == <<0, x[2]>>
ZAdd(x, y) ==
  IF x[1] = y[1] THEN ZMk(x[1], NAdd(x[2], y[2]))
  ELSE LET c == NCmp(x[2], y[2])
       IN IF c = 0 THEN ZZero
          ELSE IF c > 0 THEN ZMk(x[1], NSub(x[2], y[2]))
          ELSE ZMk(y[1], NSub(y[2], x[2]))
ZSub(x, y) == ZAdd(x, ZNeg(y))
ZMul(x, y) == ZMk((x[1] + y[1]) % 2, NMul(x[2], y[2]))
ZMulSmall(x, c) == IF c >= 0 THEN ZMk(x[1], NMulSmall(x[2], c))
                   ELSE ZMk(1 - x[1], NMulSmall(x[2], -c))
ZCmp(x, y) ==
  IF x[1] # y[1] THEN (IF ZIsZero(x) /\ ZIsZero(y) THEN 0 ELSE IF x[1] = 1 THEN -1 ELSE 1)
  ELSE IF x[1] = 0 THEN NCmp(x[2], y[2]) ELSE NCmp(y[2], x[2])
ZShl(x, k) == ZMk(x[1], NShl(x[2], k))
\* floor(x / 2^k) (toward -infinity)
ZShr(x, k) ==
  IF x[1] = 0 THEN ZMk(0, NShr(x[2], k))
  ELSE IF NLowZero(x[2], k) THEN ZMk(1, NShr(x[2], k))
  ELSE ZMk(1, NAdd(NShr(x[2], k), <<1>>))
ZBitLen(x) == NBitLen(x[2])
ZTrailing(x) == NTrailing(x[2])
ZIsOdd(x) == NIsOdd(x[2])
ZLowZero(x, k) == NLowZero(x[2], k)
ZBit(x, k) == NBit(x[2], k)
ZPow(x, n) == ZMk(IF n % 2 = 1 THEN x[1] ELSE 0, NPow(x[2], n))
ZPow2(k) == <<0, NPow2(k)>>

\* floor division of naturals by binary long division (fallback; traces use
\* multiplication-only "checker form" wherever a quotient is judged)
NDivMod(a, d) ==
  IF Len(d) = 1 THEN LET r == NDivModSmall(a, d[1]) IN [q |-> r.q, r |-> NFromInt(r.r)]
  ELSE IF NCmp(a, d) < 0 THEN [q |-> <<>>, r |-> a]
  ELSE
  LET n == NBitLen(a)
      st == FoldLeft(LAMBDA acc, j :
                LET k == n - j                                   \* bit index, high to low
                    r2 == NAdd(NShl(acc[2], 1), IF NBit(a, k) = 1 THEN <<1>> ELSE <<>>)
                IN IF NCmp(r2, d) >= 0 THEN <<Append(acc[1], 1), NSub(r2, d)>>
                   ELSE <<Append(acc[1], 0), r2>>,
                <<<<>>, <<>>>>, [j \in 1..n |-> j])
      bits == st[1]                                              \* high to low, n bits
      nl == (n + LB - 1) \div LB
      limb(i) == FoldLeft(LAMBDA s, t : LET k == (i - 1) * LB + t - 1    \* bit k
                                        IN IF k < n THEN s + bits[n - k] * Pow2(t - 1) ELSE s,
                          0, [t \in 1..LB |-> t])
  IN [q |-> NNorm([i \in 1..nl |-> limb(i)]), r |-> st[2]]

ZDivFloor(x, y) ==                                               \* y # 0
  LET dm == NDivMod(x[2], y[2])
      same == x[1] = y[1]
  IN IF same THEN ZMk(0, dm.q)
     ELSE IF Len(dm.r) = 0 THEN ZMk(1, dm.q) ELSE ZMk(1, NAdd(dm.q, <<1>>))
ZMod(x, y) == ZSub(x, ZMul(y, ZDivFloor(x, y)))

IsZ(x) == x[1] \in {0, 1} /\ IsNat(x[2]) /\ (Len(x[2]) = 0 => x[1] = 0)
=============================================================================
