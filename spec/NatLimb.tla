------------------------------ MODULE NatLimb ------------------------------
(***************************************************************************)
(* Layer 0: natural numbers of unbounded size as little-endian sequences   *)
(* of limbs in base B = 2^LB.  TLC's own integers are 32 bit; every native *)
(* intermediate below stays under 2^31 as long as operands have at most    *)
(* MAXLIMBS limbs.  The canonical form has no leading (high) zero limb, so  *)
(* zero is <<>> and equality of values is equality of sequences.           *)
(* Loops are written with SequencesExt!FoldLeft (iterative in TLC).        *)
(***************************************************************************)
EXTENDS Integers, Sequences, SequencesExt, FiniteSets

CONSTANT LB                      \* bits per limb (10 for traces, 2 in ZLimbCheck)

RECURSIVE Pow2(_)
Pow2(k) == IF k = 0 THEN 1 ELSE 2 * Pow2(k - 1)      \* native, k <= 30
B == Pow2(LB)

NZero == <<>>
NIsZero(a) == Len(a) = 0
Max2(x, y) == IF x >= y THEN x ELSE y
Min2(x, y) == IF x <= y THEN x ELSE y
L(a, i) == IF i >= 1 /\ i <= Len(a) THEN a[i] ELSE 0

\* index of the highest nonzero limb (0 if none), scanning down from i
RECURSIVE TopNZ(_, _)
TopNZ(a, i) == IF i = 0 THEN 0 ELSE IF a[i] # 0 THEN i ELSE TopNZ(a, i - 1)
\* strip high zero limbs
NNorm(a) ==
  LET top == TopNZ(a, Len(a))
  IN IF top = 0 THEN <<>> ELSE IF top = Len(a) THEN a ELSE SubSeq(a, 1, top)

\* native non-negative int -> limbs
RECURSIVE NFromInt(_)
NFromInt(n) == IF n = 0 THEN <<>> ELSE <<n % B>> \o NFromInt(n \div B)

\* limbs -> native int (caller guarantees < 2^31)
NToInt(a) == FoldRight(LAMBDA x, acc : acc * B + x, a, 0)

\* force a lazily defined function with domain 1..n into a tuple (each element evaluated once)
Force(f) == SubSeq(f, 1, Len(f))
(* carry/borrow pass: cols is a tuple of native column values (possibly >= B or negative).   *)
(* Vector relaxation: every round moves each column's overflow one place up; after at most  *)
(* three rounds only +-1 ripples remain.  No element-wise appends, so a pass is linear.      *)
RECURSIVE Relax(_)
Relax(v) ==
  IF \A i \in 1..Len(v) : v[i] >= 0 /\ v[i] < B THEN v
  ELSE LET n == Len(v)
       IN Relax(Force([i \in 1..(n + 1) |-> (IF i <= n THEN v[i] % B ELSE 0) + (IF i > 1 THEN v[i - 1] \div B ELSE 0)]))
CarryPass(cols) == NNorm(Relax(Force(cols)))

NAdd(a, b) ==
  IF Len(a) = 0 THEN b ELSE IF Len(b) = 0 THEN a ELSE
  CarryPass([i \in 1..Max2(Len(a), Len(b)) |-> L(a, i) + L(b, i)])

\* highest index at which a and b (same length) differ, 0 if equal
RECURSIVE TopDiff(_, _, _)
TopDiff(a, b, i) == IF i = 0 THEN 0 ELSE IF a[i] # b[i] THEN i ELSE TopDiff(a, b, i - 1)
NCmp(a, b) ==                                   \* -1, 0, 1
  IF Len(a) # Len(b) THEN (IF Len(a) < Len(b) THEN -1 ELSE 1)
  ELSE LET t == TopDiff(a, b, Len(a))
       IN IF t = 0 THEN 0 ELSE IF a[t] < b[t] THEN -1 ELSE 1

\* a - b for a >= b (columns may be negative; \div and % are the floor versions in TLC)
NSub(a, b) ==
  IF Len(b) = 0 THEN a ELSE CarryPass([i \in 1..Len(a) |-> a[i] - L(b, i)])

\* schoolbook product by native column sums (min(Len) <= 2000 keeps columns < 2^31)
NMul(a, b) ==
  IF Len(a) = 0 \/ Len(b) = 0 THEN <<>> ELSE
  LET la == Len(a)  lb == Len(b)
      col(k) == LET lo == Max2(1, k + 1 - lb)  hi == Min2(la, k)
                IN FoldLeft(LAMBDA s, i : s + a[i] * b[k + 1 - i], 0,
                            [j \in 1..(hi - lo + 1) |-> lo + j - 1])
  IN CarryPass([k \in 1..(la + lb - 1) |-> col(k)])

NMulSmall(a, c) ==                              \* c native, 0 <= c < 2^(31-LB) - 1
  IF c = 0 \/ Len(a) = 0 THEN <<>> ELSE CarryPass([i \in 1..Len(a) |-> a[i] * c])

NSqr(a) == NMul(a, a)

\* floor(a / c), a mod c for native 1 <= c < 2^(31-LB): divide and conquer scan from the high limbs
\* (the remainder is threaded through the halves; concatenations make it O(n log n))
RECURSIVE DivScan(_, _, _)
DivScan(a, c, rin) ==
  IF Len(a) = 0 THEN <<<<>>, rin>>
  ELSE IF Len(a) = 1 THEN LET t == rin * B + a[1] IN <<<<t \div c>>, t % c>>
  ELSE LET h == Len(a) \div 2
           H == DivScan(SubSeq(a, h + 1, Len(a)), c, rin)
           Lw == DivScan(SubSeq(a, 1, h), c, H[2])
       IN <<Lw[1] \o H[1], Lw[2]>>
NDivModSmall(a, c) == LET st == DivScan(a, c, 0) IN [q |-> NNorm(st[1]), r |-> st[2]]

BitLenSmall(x) ==                               \* native 0 <= x < 2^30
  IF x = 0 THEN 0 ELSE CHOOSE k \in 1..31 : Pow2(k - 1) <= x /\ (k = 31 \/ x < Pow2(k))
NBitLen(a) == IF Len(a) = 0 THEN 0 ELSE LB * (Len(a) - 1) + BitLenSmall(a[Len(a)])

TrailSmall(x) == CHOOSE k \in 0..30 : x % Pow2(k) = 0 /\ (x \div Pow2(k)) % 2 = 1
RECURSIVE LowNZ(_, _)
LowNZ(a, i) == IF a[i] # 0 THEN i ELSE LowNZ(a, i + 1)
NTrailing(a) ==                                 \* a # 0
  LET lo == LowNZ(a, 1) IN LB * (lo - 1) + TrailSmall(a[lo])

NIsOdd(a) == Len(a) > 0 /\ a[1] % 2 = 1

NShl(a, k) ==                                   \* a * 2^k, k >= 0 native
  IF Len(a) = 0 THEN <<>> ELSE
  LET q == k \div LB  r == k % LB  p == Pow2(r)  hi == Pow2(LB - r)  n == Len(a)
      body == IF r = 0 THEN a
              ELSE NNorm([i \in 1..(n + 1) |-> (L(a, i) % hi) * p + (L(a, i - 1) \div hi)])
  IN [i \in 1..q |-> 0] \o body

NShr(a, k) ==                                   \* floor(a / 2^k), k >= 0 native
  LET q == k \div LB  r == k % LB  p == Pow2(r)  hi == Pow2(LB - r)  n == Len(a) - q
  IN IF n <= 0 THEN <<>>
     ELSE NNorm([i \in 1..n |-> (a[i + q] \div p) + (L(a, i + q + 1) % p) * hi])

\* are the k low bits of a all zero?
NLowZero(a, k) ==
  LET q == k \div LB  r == k % LB
  IN /\ \A i \in 1..Min2(q, Len(a)) : a[i] = 0
     /\ (r = 0 \/ L(a, q + 1) % Pow2(r) = 0)

NBit(a, k) == (L(a, k \div LB + 1) \div Pow2(k % LB)) % 2     \* bit k (0 = lowest)

NPow2(k) == NShl(<<1>>, k)

\* a^n by binary exponentiation, n native >= 0
RECURSIVE NPow(_, _)
NPow(a, n) == IF n = 0 THEN <<1>>
              ELSE IF n % 2 = 0 THEN NSqr(NPow(a, n \div 2))
              ELSE NMul(a, NSqr(NPow(a, n \div 2)))

IsNat(a) == /\ \A i \in 1..Len(a) : a[i] \in 0..(B - 1)
            /\ (Len(a) = 0 \/ a[Len(a)] # 0)
=============================================================================
