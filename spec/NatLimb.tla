------------------------------ MODULE NatLimb ------------------------------
(***************************************************************************)
(* Layer 0: natural numbers of unbounded size as little-endian sequences   *)
(* of limbs in base B = 2^LB.  TLC's own integers are 32 bit; every native *)
(* intermediate below stays under 2^31 as long as operands have at most    *)
(* MAXLIMBS limbs.  The canonical form has no leading (high) zero limb, so  *)
(* zero is <<>> and equality of values is equality of sequences.           *)
(* Loops are written with SequencesExt!FoldLeft (iterative in TLC).        *)
(***************************************************************************)
EXTENDS Integers, Sequences, SequencesExt, FiniteSets

CONSTANT LB                      \* bits per limb (10 for traces, 2 in ZLimbCheck)

RECURSIVE Pow2(_)
Pow2(k) == IF k = 0 THEN 1 ELSE 2 * Pow2(k - 1)      \* native, k <= 30
B == Pow2(LB)

NZero == <<>>
NIsZero(a) == Len(a) = 0
Max2(x, y) == IF x >= y THEN x ELSE y
Min2(x, y) == IF x <= y THEN x ELSE y
L(a, i) == IF i >= 1 /\ i <= Len(a) THEN a[i] ELSE 0

\* strip high zero limbs
NNorm(a) ==
  LET nz == {i \in 1..Len(a) : a[i] # 0}
  IN IF nz = {} THEN <<>>
     ELSE LET top == CHOOSE i \in nz : \A j \in nz : j <= i
          IN IF top = Len(a) THEN a ELSE SubSeq(a, 1, top)

\* native non-negative int -> limbs
RECURSIVE NFromInt(_)
NFromInt(n) == IF n = 0 THEN <<>> ELSE <<n % B>> \o NFromInt(n \div B)

\* limbs -> native int (caller guarantees < 2^31)
NToInt(a) == FoldRight(LAMBDA x, acc : acc * B + x, a, 0)

\* carry pass: cols is a sequence of native column values (each < 2^31 - carry)
CarryPass(cols) ==
  LET st == FoldLeft(LAMBDA acc, c : LET t == c + acc[1]
                                     IN <<t \div B, Append(acc[2], t % B)>>,
                     <<0, <<>>>>, cols)
  IN NNorm(st[2] \o NFromInt(st[1]))

NAdd(a, b) ==
  IF Len(a) = 0 THEN b ELSE IF Len(b) = 0 THEN a ELSE
  CarryPass([i \in 1..Max2(Len(a), Len(b)) |-> L(a, i) + L(b, i)])

NCmp(a, b) ==                                   \* -1, 0, 1
  IF Len(a) # Len(b) THEN (IF Len(a) < Len(b) THEN -1 ELSE 1)
  ELSE LET d == {i \in 1..Len(a) : a[i] # b[i]}
       IN IF d = {} THEN 0
          ELSE LET t == CHOOSE i \in d : \A j \in d : j <= i
               IN IF a[t] < b[t] THEN -1 ELSE 1

\* a - b for a >= b (borrow pass; columns may be negative, \div and % floor in TLC)
NSub(a, b) ==
  IF Len(b) = 0 THEN a ELSE
  LET st == FoldLeft(LAMBDA acc, c : LET t == c + acc[1]
                                     IN <<t \div B, Append(acc[2], t % B)>>,
                     <<0, <<>>>>, [i \in 1..Len(a) |-> a[i] - L(b, i)])
  IN NNorm(st[2])

\* schoolbook product by native column sums (min(Len) <= 2000 keeps columns < 2^31)
NMul(a, b) ==
  IF Len(a) = 0 \/ Len(b) = 0 THEN <<>> ELSE
  LET la == Len(a)  lb == Len(b)
      col(k) == LET lo == Max2(1, k + 1 - lb)  hi == Min2(la, k)
                IN FoldLeft(LAMBDA s, i : s + a[i] * b[k + 1 - i], 0,
                            [j \in 1..(hi - lo + 1) |-> lo + j - 1])
  IN CarryPass([k \in 1..(la + lb - 1) |-> col(k)])

NMulSmall(a, c) ==                              \* c native, 0 <= c < 2^(31-LB) - 1
  IF c = 0 \/ Len(a) = 0 THEN <<>> ELSE CarryPass([i \in 1..Len(a) |-> a[i] * c])

NSqr(a) == NMul(a, a)

\* floor(a / c), a mod c for native 1 <= c < 2^(31-LB)
NDivModSmall(a, c) ==
  LET st == FoldRight(LAMBDA x, acc : LET t == acc[1] * B + x
                                      IN <<t % c, <<t \div c>> \o acc[2]>>,
                      a, <<0, <<>>>>)
  IN [q |-> NNorm(st[2]), r |-> st[1]]

BitLenSmall(x) ==                               \* native 0 <= x < 2^30
  IF x = 0 THEN 0 ELSE CHOOSE k \in 1..31 : Pow2(k - 1) <= x /\ (k = 31 \/ x < Pow2(k))
NBitLen(a) == IF Len(a) = 0 THEN 0 ELSE LB * (Len(a) - 1) + BitLenSmall(a[Len(a)])

TrailSmall(x) == CHOOSE k \in 0..30 : x % Pow2(k) = 0 /\ (x \div Pow2(k)) % 2 = 1
NTrailing(a) ==                                 \* a # 0
  LET nz == {i \in 1..Len(a) : a[i] # 0}
      lo == CHOOSE i \in nz : \A j \in nz : i <= j
  IN LB * (lo - 1) + TrailSmall(a[lo])

NIsOdd(a) == Len(a) > 0 /\ a[1] % 2 = 1

NShl(a, k) ==                                   \* a * 2^k, k >= 0 native
  IF Len(a) = 0 THEN <<>> ELSE
  LET q == k \div LB  r == k % LB  p == Pow2(r)  hi == Pow2(LB - r)  n == Len(a)
      body == IF r = 0 THEN a
              ELSE NNorm([i \in 1..(n + 1) |-> (L(a, i) % hi) * p + (L(a, i - 1) \div hi)])
  IN [i \in 1..q |-> 0] \o body

NShr(a, k) ==                                   \* floor(a / 2^k), k >= 0 native
  LET q == k \div LB  r == k % LB  p == Pow2(r)  hi == Pow2(LB - r)  n == Len(a) - q
  IN IF n <= 0 THEN <<>>
     ELSE NNorm([i \in 1..n |-> (a[i + q] \div p) + (L(a, i + q + 1) % p) * hi])

\* are the k low bits of a all zero?
NLowZero(a, k) ==
  LET q == k \div LB  r == k % LB
  IN /\ \A i \in 1..Min2(q, Len(a)) : a[i] = 0
     /\ (r = 0 \/ L(a, q + 1) % Pow2(r) = 0)

NBit(a, k) == (L(a, k \div LB + 1) \div Pow2(k % LB)) % 2     \* bit k (0 = lowest)

NPow2(k) == NShl(<<1>>, k)

\* a^n by binary exponentiation, n native >= 0
RECURSIVE NPow(_, _)
NPow(a, n) == IF n = 0 THEN <<1>>
              ELSE IF n % 2 = 0 THEN NSqr(NPow(a, n \div 2))
              ELSE NMul(a, NSqr(NPow(a, n \div 2)))

IsNat(a) == /\ \A i \in 1..Len(a) : a[i] \in 0..(B - 1)
            /\ (Len(a) = 0 \/ a[Len(a)] # 0)
=============================================================================
