--------------------------------- MODULE Judge ---------------------------------
(***************************************************************************)
(* Decoding of logged events and dispatch to the postconditions.  Kept      *)
(* apart from TraceJudge so that the same dispatch is usable from model     *)
(* modules.  JSON value encodings (field k is the kind):                    *)
(*   f  mpf      {s, m:[limbs], e, bc}          z  integer {s, m:[limbs]}   *)
(*   i  small native int {v}    b  bool {v}     x  exception {v: class}     *)
(*   d  IEEE double {s, be, fr:[limbs]}         q  rational {s, n, d}       *)
(*   c  mpc {re, im}   v  interval {a, b}   t  tuple {v:[...]}              *)
(*   ninf / pinf / nan / none   symbolic results                            *)
(***************************************************************************)
EXTENDS Integers, Sequences, SequencesExt, FiniteSets
CONSTANTS ZZero, ZOne, ZFromInt(_), ZToInt(_), ZSign(_), ZIsZero(_), ZNeg(_), ZAbs(_),
          ZAdd(_, _), ZSub(_, _), ZMul(_, _), ZMulSmall(_, _), ZCmp(_, _),
          ZShl(_, _), ZShr(_, _), ZBitLen(_), ZTrailing(_), ZIsOdd(_),
          ZLowZero(_, _), ZBit(_, _), ZPow(_, _), ZPow2(_), ZDivFloor(_, _), ZMod(_, _),
          ZMk(_, _)
INSTANCE RealFun

F(j) == Mpf(j.s, ZMk(0, j.m), j.e, j.bc)
Zj(j) == ZMk(j.s, j.m)
\* an argument of kind f, z or d as an exact mpf-shaped value
Arg(j) == CASE j.k = "f" -> F(j)
            [] j.k = "z" -> Encode(Dy(Zj(j), 0))
            [] j.k = "d" -> F64Val(j.s, j.be, ZMk(0, j.fr))
Out(j) == CASE j.k = "f" -> [k |-> "f", v |-> F(j)]
            [] j.k = "z" -> [k |-> "z", v |-> Zj(j)]
            [] OTHER -> j
Fs(js) == [i \in 1..Len(js) |-> Arg(js[i])]
\* complex argument: kind c {re, im}, or a real kind (imaginary part zero)
CArg(j) == IF j.k = "c" THEN <<Arg(j.re), Arg(j.im)>> ELSE <<Arg(j), FZero>>
COut(j) == IF j.k = "c" THEN [k |-> "c", re |-> F(j.re), im |-> F(j.im)] ELSE j
Iv(j) == <<F(j.a), F(j.b)>>
Pts(js) == [i \in 1..Len(js) |-> DV(Arg(js[i]))]
CPts(js) == [i \in 1..Len(js) |-> <<DV(Arg(js[i].re)), DV(Arg(js[i].im))>>]

\* all real components of an outcome, as a set of mpf records
RECURSIVE Comps(_)
Comps(j) == CASE j.k = "f" -> {F(j)}
              [] j.k = "c" -> {F(j.re), F(j.im)}
              [] j.k = "v" -> {F(j.a), F(j.b)}
              [] j.k = "cv" -> {F(j.re.a), F(j.re.b), F(j.im.a), F(j.im.b)}
              [] j.k = "t" -> UNION {Comps(j.v[i]) : i \in 1..Len(j.v)}
              [] OTHER -> {}

\* real components of a value as a sequence (f: 1, c: 2)
Comps2(j) == CASE j.k = "f" -> <<F(j)>> [] j.k = "c" -> <<F(j.re), F(j.im)>> [] j.k = "v" -> <<F(j.a), F(j.b)>>
               [] j.k = "t" -> IF Len(j.v) = 0 THEN <<>> ELSE [i \in 1..Len(j.v) |-> F(j.v[i])]

Post(ev) ==
  LET a == ev.a  p == ev.p  r == ev.r  o == Out(ev.o)  op == ev.op IN
  CASE op = "add" -> PostAdd(Arg(a[1]), Arg(a[2]), p, r, o)
    [] op = "sub" -> PostSub(Arg(a[1]), Arg(a[2]), p, r, o)
    [] op = "mul" -> PostMul(Arg(a[1]), Arg(a[2]), p, r, o)
    [] op = "div" -> PostDiv(Arg(a[1]), Arg(a[2]), p, r, o)
    [] op = "sqrt" -> PostSqrt(Arg(a[1]), p, r, o)
    [] op = "pos" -> PostPos(Arg(a[1]), p, r, o)
    [] op = "neg" -> PostNeg(Arg(a[1]), p, r, o)
    [] op = "abs" -> PostAbs(Arg(a[1]), p, r, o)
    [] op = "from_int" -> PostFromInt(Zj(a[1]), p, r, o)
    [] op = "from_rational" -> PostFromRational(a[1].s = 1, ZMk(0, a[1].n), ZMk(0, a[1].d), p, r, o)
    [] op = "sum" -> PostSum(Fs(a[1].v), p, r, o)
    [] op = "dot" -> PostDot(Fs(a[1].v), Fs(a[2].v), p, r, o)
    [] op \in {"floor", "ceil", "nint"} -> PostIntPart(op, Arg(a[1]), p, r, o)
    [] op = "frac" -> PostFrac(Arg(a[1]), p, r, o)
    [] op = "to_int" -> PostToInt(Arg(a[1]), o)
    [] op = "mod" -> PostMod(Arg(a[1]), Arg(a[2]), Zj(a[3]), p, r, o)
    [] op \in {"lt", "le", "gt", "ge", "eq", "ne"} -> PostRel(op, Arg(a[1]), Arg(a[2]), o)
    [] op = "hash_eq" -> \* two values, observed equality, their hashes: equal values hash equally
         /\ a[3].v = (Arg(a[1]) # FNan /\ Arg(a[2]) # FNan /\ FCmp(Arg(a[1]), Arg(a[2])) = 0)
         /\ (a[3].v => ZCmp(Zj(a[4]), Zj(a[5])) = 0)
    [] op = "chash_eq" -> \* the same for complex values (mpc against mpc / complex / mpf / int / float): componentwise exact equality
         LET z == CArg(a[1])  w == CArg(a[2])
             eqx == /\ z[1] # FNan /\ z[2] # FNan /\ w[1] # FNan /\ w[2] # FNan
                    /\ FCmp(z[1], w[1]) = 0 /\ FCmp(z[2], w[2]) = 0
         IN /\ a[3].v = eqx
            /\ (a[3].v => ZCmp(Zj(a[4]), Zj(a[5])) = 0)
    [] op = "mag" -> PostMag(Arg(a[1]), o)
    [] op = "frexp" -> PostFrexp(Arg(a[1]), F(ev.o.v[1]), ev.o.v[2].v)
    [] op = "ldexp" -> PostLdexp(Arg(a[1]), ZToInt(Zj(a[2])), o)
    [] op = "isint" -> PostIsInt(Arg(a[1]), o)
    [] op = "nint_distance" -> IF a[1].k = "q" THEN PostNintDistanceQ(a[1].s = 1, ZMk(0, a[1].n), ZMk(0, a[1].d), Zj(ev.o.v[1]), ev.o.v[2])
                               ELSE PostNintDistance(Arg(a[1]), Zj(ev.o.v[1]), ev.o.v[2])
    [] op = "to_float" -> PostToFloat(Arg(a[1]), ev.o.s, ev.o.be, ZMk(0, ev.o.fr))
    [] op = "from_float" -> o.k = "f" /\ o.v = (IF p = 0 \/ ~IsFin(Arg(a[1])) THEN Arg(a[1]) ELSE RoundDy(Val(Arg(a[1])), p, r))
    [] op = "pow_int" -> PostPowInt(Arg(a[1]), ZToInt(Zj(a[2])), p, r, o)
    [] op = "cadd" -> PostCAdd(CArg(a[1]), CArg(a[2]), p, r, COut(ev.o))
    [] op = "csub" -> PostCSub(CArg(a[1]), CArg(a[2]), p, r, COut(ev.o))
    [] op = "cmul" -> PostCMul(CArg(a[1]), CArg(a[2]), p, r, COut(ev.o))
    [] op = "cdiv" -> PostCDiv(CArg(a[1]), CArg(a[2]), p, r, COut(ev.o))
    [] op = "cpow" -> LET n == ZToInt(Zj(a[2])) IN
                      IF n >= 0 THEN PostCPowIntExact(CArg(a[1]), n, p, r, COut(ev.o))
                      ELSE PostCPowNeg(CArg(a[1]), -n, p, r, COut(ev.o))
    [] op = "ceq" -> PostCEq(CArg(a[1]), CArg(a[2]), o)
    [] op = "iv" -> IF ev.o.k = "x" THEN ev.x.mayraise
                    ELSE PostIv(ev.x.f, Pts(ev.x.xs), Pts(ev.x.ys), ev.x.n, Iv(ev.o))
    [] op = "civ" -> IF ev.o.k = "x" THEN ev.x.mayraise
                     ELSE PostCiv(ev.x.f, CPts(ev.x.xs), CPts(ev.x.ys), ev.x.n, <<Iv(ev.o.re), Iv(ev.o.im)>>)
    [] op = "near" -> \* two outcomes of the same evaluation agree to within ev.x.k ulps at precision p (relative to the larger part)
         LET xs == Comps2(a[1])  ys == Comps2(a[2]) IN
         /\ Len(xs) = Len(ys)
         /\ LET tops == {DyTop(DV(xs[i])) : i \in {j \in 1..Len(xs) : IsFin(xs[j])}} \cup {DyTop(DV(ys[i])) : i \in {j \in 1..Len(ys) : IsFin(ys[j])}}
                top == IF tops = {} THEN 0 ELSE CHOOSE t \in tops : \A u \in tops : u <= t
            IN \A i \in 1..Len(xs) :
                 \/ xs[i] = ys[i]
                 \/ /\ IsFinite(xs[i]) /\ IsFinite(ys[i])
                    /\ DyCmpAbs(DySub(DV(xs[i]), DV(ys[i])), Dy(ZFromInt(ev.x.k), top - p)) <= 0
    [] op = "relerr" -> \* |r - num/den| <= 2^(k-p) |num/den| for dyadic (mpf) num, den; exact
         LET rr == DV(Arg(a[1]))  num == DV(Arg(a[2]))  den == DV(Arg(a[3]))
         IN DyCmpAbs(DySub(DyMul(rr, den), num), DyShift(num, ev.x.k - p)) <= 0
    [] op = "ode_rational" -> \* y' = -y^2, y(0) = 1 has the solution 1/(1+x): judged exactly
         LET rr == DV(Arg(a[1]))  den == DyAdd(Dy(ZOne, 0), DV(Arg(a[2])))
         IN DyCmpAbs(DySub(DyMul(rr, den), Dy(ZOne, 0)), Dy(ZOne, ev.x.k - p)) <= 0
    [] op = "same_repr" -> \* C40: copy / unpickled value has the identical raw representation, type and equality flags
         /\ Comps2(a[1]) = Comps2(a[2]) /\ ev.x.same_type /\ ev.x.equal
    [] op = "from_str" -> PostFromStr(a[1].v, p, r, o)
    [] op = "repr" -> PostReprRoundTrip(Arg(a[1]), a[2].v, p)
    [] op = "nstr" -> PostNearestDigits(Arg(a[1]), a[2].v, ZToInt(Zj(a[3])))
    [] op = "oblig" -> HoldsWith(ev.x.j, ev.x.defs)
    [] op = "exact_or_ulp" -> o.k = "f" /\ ExactOrUlp(o.v, ev.x.e, p)
    [] op = "int_eq" -> o.k = "z" /\ LET v == Ev(ev.x.e, 0) IN ZCmp(v[2], ZOne) = 0 /\ ZCmp(o.v, v[1]) = 0
    [] op = "call_exit" -> \* C24: a call is closed by a return or by a documented exception within the work budget
         \/ ev.x.exit = "return"
         \/ (ev.x.exit = "raise" /\ ev.x.exc \in {"ValueError", "ZeroDivisionError", "NoConvergence", "NotImplementedError", "ComplexResult"})
         \/ (ev.x.exit = "raise" /\ ev.x.harness)         \* ill-typed / out-of-context statement of the corpus: not a verdict about mpmath
    [] op = "none" -> TRUE

(*************************** C17 / C33: constants ***************************)
(* "const": one request of a constant at precision p in mode r, with the     *)
(* memo precision before/after (projected from the real memo), the answer    *)
(* and the answer recomputed from an emptied memo.                           *)
NewPrecReal(wp) == (wp * 105) \div 100 + 10
ConstClauses(ev) ==
  LET x == ev.x  wp == ev.p + 20
  IN IF x.abort THEN (IF x.ma # x.mb \/ ~x.sameval THEN {"abort"} ELSE {})       \* ConstMemo!AbortSafe
     ELSE (IF x.ma # (IF wp <= x.mb THEN x.mb ELSE NewPrecReal(wp)) THEN {"memo"} ELSE {})
          \cup (IF F(ev.o) # F(x.scratch) THEN {"history"} ELSE {})
(* "const5": the five modes at one precision: d = f, u = c (positive          *)
(* constant), f <= n <= c, and c is f or its successor at precision p.        *)
Const5Clauses(ev) ==
  LET n == F(ev.a[1])  f == F(ev.a[2])  c == F(ev.a[3])  d == F(ev.a[4])  u == F(ev.a[5])  p == ev.p
      succ == RoundDy(DyAdd(Val(f), Dy(ZOne, f.e - (p - f.bc) - 1)), p, "c")    \* next p-bit number above f
  IN (IF d # f \/ u # c THEN {"modes"} ELSE {})
     \cup (IF ~(FCmp(f, n) <= 0 /\ FCmp(n, c) <= 0) THEN {"order"} ELSE {})
     \cup (IF ~(c = f \/ c = succ) THEN {"adjacent"} ELSE {})
     \cup (IF \E y \in {n, f, c} : ~(IsFin(y) /\ Canonical(y) /\ y.bc <= p) THEN {"shape"} ELSE {})
(* "nest": floor/ceiling enclosures of one constant at increasing precisions  *)
(* must be nested: there is one real number compatible with all of them.      *)
NestClauses(ev) ==
  LET xs == ev.a
  IN IF \E i \in 1..(Len(xs) - 1) :
          \/ FCmp(F(xs[i].v[1]), F(xs[i + 1].v[1])) > 0        \* lower bounds increase
          \/ FCmp(F(xs[i].v[2]), F(xs[i + 1].v[2])) < 0        \* upper bounds decrease
          \/ FCmp(F(xs[i + 1].v[1]), F(xs[i + 1].v[2])) > 0
     THEN {"nested"} ELSE {}

(* "real": an elementary function value judged against the spec's own series enclosure; "realconst": a constant   *)
(* judged for correct rounding against the enclosure.  An enclosure too wide for the comparison gives "undecided", *)
(* which the harness counts and never reports as a violation.                                                      *)
RealClauses(ev) ==
  LET r == F(ev.o)
      verdict == CASE ev.op = "real" -> EnclJudge(r, Encl(ev.x.f, DV(Arg(ev.a[1])), ev.x.w), ev.x.tol, ev.p)
                   [] ev.op = "realround" -> EnclRound(r, Encl(ev.x.f, DV(Arg(ev.a[1])), ev.x.w), ev.p, ev.r)
                   [] OTHER -> EnclRound(r, ConstEncl(ev.x.f, ev.x.w), ev.p, ev.r)
  IN IF verdict = "bad" THEN {"post"} ELSE IF verdict = "undecided" THEN {"undecided"} ELSE {}

(* "ivfun" / "civfun": containment of elementary functions of intervals / rectangles (C14, C15): for every sample   *)
(* member point the spec's own enclosure of the function value must not lie outside the returned interval.         *)
(* "ivrel" / "civrel": the same with enclosures supplied by the harness (the library's point value at a much       *)
(* higher precision, widened) -- a relational oracle, used for the gamma family which has no spec-side series.     *)
Verdicts(vs) == IF "bad" \in vs THEN {"post"} ELSE IF "undecided" \in vs THEN {"undecided"} ELSE {}
\* membership of a reference enclosure given by two dyadic endpoints
RefMember(v, j) ==
  LET lo == DV(F(j.a))  hi == DV(F(j.b))
      Ge(d) == v[1] = FNInf \/ (v[1] # FInf /\ DyCmp(DV(v[1]), d) <= 0)
      Le(d) == v[2] = FInf \/ (v[2] # FNInf /\ DyCmp(d, DV(v[2])) <= 0)
  IN IF ~Ge(hi) \/ ~Le(lo) THEN "bad" ELSE IF Ge(lo) /\ Le(hi) THEN "ok" ELSE "undecided"
IvFunClauses(ev) ==
  IF ev.o.k = "x" THEN (IF ev.x.mayraise THEN {} ELSE {"post"})
  ELSE CASE ev.op = "ivfun" ->
              LET v == Iv(ev.o)  xs == Pts(ev.x.xs)
                  KC == Consts(ev.x.w + 66)                 \* the harness keeps |x| < 2^62
              IN IF ~IvOK(v) THEN {"post"}
                 ELSE Verdicts({ IF ev.x.f = "atan2" THEN EnclMember(v, Atan2EnclK(xs[i], Pts(ev.x.ys)[i], ev.x.w, KC))
                                 ELSE EnclMember(v, EnclK(ev.x.f, xs[i], ev.x.w, KC)) : i \in 1..Len(xs) })
         [] ev.op = "civfun" ->
              LET re == Iv(ev.o.re)  im == Iv(ev.o.im)  zs == CPts(ev.x.zs)
                  KC == Consts(ev.x.w + 66)
              IN IF ~IvOK(re) \/ ~IvOK(im) THEN {"post"}
                 ELSE Verdicts(UNION { LET c == CEnclK(ev.x.f, zs[i][1], zs[i][2], ev.x.w, KC)
                                       IN {EnclMember(re, c[1]), EnclMember(im, c[2])} : i \in 1..Len(zs) })
         [] ev.op = "ivrel" ->
              LET v == Iv(ev.o)
              IN IF ~IvOK(v) THEN {"post"} ELSE Verdicts({ RefMember(v, ev.x.refs[i]) : i \in 1..Len(ev.x.refs) })
         [] ev.op = "civrel" ->
              LET re == Iv(ev.o.re)  im == Iv(ev.o.im)
              IN IF ~IvOK(re) \/ ~IvOK(im) THEN {"post"}
                 ELSE Verdicts(UNION { {RefMember(re, ev.x.refs[i].re), RefMember(im, ev.x.refs[i].im)} : i \in 1..Len(ev.x.refs) })

PostClauses(ev) ==
  CASE ev.op \in {"real", "realround", "realconst"} -> RealClauses(ev)
    [] ev.op \in {"ivfun", "civfun", "ivrel", "civrel"} -> IvFunClauses(ev)
    [] ev.op = "phi_round" -> \* the golden ratio (1+sqrt 5)/2 correctly rounded: phi ? b  <=>  5 ? (2b-1)^2  (exact, algebraic)
         LET r == F(ev.o)
             CmpPhi(m, e) == LET t == DySub(Dy(ZShl(m, 1), e), Dy(ZOne, 0))          \* 2b - 1
                             IN IF DySign(t) <= 0 THEN 1 ELSE DyCmp(Dy(ZFromInt(5), 0), DyMul(t, t))
             c == Cell(r, ev.p, ev.r)
         IN IF RoundedShape(r, FALSE, ev.p) /\ InCell(c, CmpPhi(c.lo, c.e), CmpPhi(c.hi, c.e)) THEN {} ELSE {"post"}
    [] ev.op = "const" -> ConstClauses(ev)
    [] ev.op = "const5" -> Const5Clauses(ev)
    [] ev.op = "nest" -> NestClauses(ev)
    [] OTHER -> IF ~Post(ev) THEN {"post"} ELSE {}

Clauses(ev) ==
  PostClauses(ev)
  \cup (IF \E x \in Comps(ev.o) : ~Canonical(x) THEN {"canon"} ELSE {})
  \cup (IF ev.pb > 0 /\ \E x \in Comps(ev.o) : ~BitsLe(x, ev.pb) THEN {"bits"} ELSE {})
=============================================================================
