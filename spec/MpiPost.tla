------------------------------- MODULE MpiPost -------------------------------
(***************************************************************************)
(* Layer 3: containment postconditions of real and complex interval         *)
(* arithmetic (C14, C15), stated literally: for every member point of the   *)
(* inputs the exact result lies in the returned interval.  An event carries *)
(* sample member points of each input (the endpoints when finite, interior  *)
(* dyadics, zero when inside, huge points for infinite endpoints); for the  *)
(* bilinear and monotone operations the extreme values are attained at      *)
(* endpoint combinations, so including the endpoints makes the check        *)
(* equivalent to hull containment.  Exact results are dyadics or rationals; *)
(* all comparisons are exact.                                               *)
(***************************************************************************)
EXTENDS Integers, Sequences, SequencesExt
CONSTANTS ZZero, ZOne, ZFromInt(_), ZToInt(_), ZSign(_), ZIsZero(_), ZNeg(_), ZAbs(_),
          ZAdd(_, _), ZSub(_, _), ZMul(_, _), ZMulSmall(_, _), ZCmp(_, _),
          ZShl(_, _), ZShr(_, _), ZBitLen(_), ZTrailing(_), ZIsOdd(_),
          ZLowZero(_, _), ZBit(_, _), ZPow(_, _), ZPow2(_), ZDivFloor(_, _), ZMod(_, _)
INSTANCE MpcPost

\* a well-formed interval <<a, b>>: no nan, a <= b
IvOK(v) == v[1] # FNan /\ v[2] # FNan /\ FCmp(v[1], v[2]) <= 0
\* the finite dyadic d is a member of interval v
HasDy(v, d) == /\ (v[1] = FNInf \/ (v[1] # FInf /\ DyCmp(DV(v[1]), d) <= 0))
               /\ (v[2] = FInf \/ (v[2] # FNInf /\ DyCmp(d, DV(v[2])) <= 0))
\* sign(x - num/den) for dyadics num, den (den # 0)
CmpDyQ(x, num, den) == DyCmp(DyMul(x, den), num) * DySign(den)
HasQ(v, num, den) ==
  /\ (v[1] = FNInf \/ (v[1] # FInf /\ CmpDyQ(DV(v[1]), num, den) <= 0))
  /\ (v[2] = FInf \/ (v[2] # FNInf /\ CmpDyQ(DV(v[2]), num, den) >= 0))
\* sqrt(x) for a dyadic x >= 0 is a member of v
HasSqrt(v, x) ==
  /\ (v[1] = FNInf \/ (v[1] # FInf /\ (DySign(DV(v[1])) <= 0 \/ DyCmp(DyMul(DV(v[1]), DV(v[1])), x) <= 0)))
  /\ (v[2] = FInf \/ (v[2] # FNInf /\ DySign(DV(v[2])) >= 0 /\ DyCmp(DyMul(DV(v[2]), DV(v[2])), x) >= 0))
RECURSIVE DyPow(_, _)
DyPow(d, n) == IF n = 0 THEN Dy(ZOne, 0) ELSE IF n % 2 = 0 THEN LET h == DyPow(d, n \div 2) IN DyMul(h, h)
               ELSE DyMul(d, DyPow(d, n - 1))

\* real intervals: f names the operation, xs / ys are the sample points (dyadics) of the inputs,
\* n an integer parameter, res the returned interval (or "raise")
PostIv(f, xs, ys, n, res) ==
  /\ IvOK(res)
  /\ CASE f = "add" -> \A i \in 1..Len(xs), j \in 1..Len(ys) : HasDy(res, DyAdd(xs[i], ys[j]))
       [] f = "sub" -> \A i \in 1..Len(xs), j \in 1..Len(ys) : HasDy(res, DySub(xs[i], ys[j]))
       [] f = "mul" -> \A i \in 1..Len(xs), j \in 1..Len(ys) : HasDy(res, DyMul(xs[i], ys[j]))
       [] f = "div" -> \A i \in 1..Len(xs), j \in 1..Len(ys) : DyIsZero(ys[j]) \/ HasQ(res, xs[i], ys[j])
       [] f = "neg" -> \A i \in 1..Len(xs) : HasDy(res, DyNeg(xs[i]))
       [] f = "abs" -> \A i \in 1..Len(xs) : HasDy(res, DyAbs(xs[i]))
       [] f = "pow" -> \A i \in 1..Len(xs) :
                          IF n >= 0 THEN HasDy(res, DyPow(xs[i], n))
                          ELSE DyIsZero(xs[i]) \/ HasQ(res, Dy(ZOne, 0), DyPow(xs[i], -n))
       [] f = "sqrt" -> \A i \in 1..Len(xs) : DySign(xs[i]) < 0 \/ HasSqrt(res, xs[i])

\* complex intervals (rectangles): zs / ws are sample points <<re, im>>; res = <<re-interval, im-interval>>
CHas(res, u) == HasDy(res[1], u[1]) /\ HasDy(res[2], u[2])
PostCiv(f, zs, ws, n, res) ==
  /\ IvOK(res[1]) /\ IvOK(res[2])
  /\ CASE f = "add" -> \A i \in 1..Len(zs), j \in 1..Len(ws) : CHas(res, <<DyAdd(zs[i][1], ws[j][1]), DyAdd(zs[i][2], ws[j][2])>>)
       [] f = "sub" -> \A i \in 1..Len(zs), j \in 1..Len(ws) : CHas(res, <<DySub(zs[i][1], ws[j][1]), DySub(zs[i][2], ws[j][2])>>)
       [] f = "mul" -> \A i \in 1..Len(zs), j \in 1..Len(ws) : CHas(res, CMulDy(zs[i], ws[j]))
       [] f = "pow" -> \A i \in 1..Len(zs) : CHas(res, CPowDy(zs[i], n))
       [] f = "div" -> \A i \in 1..Len(zs), j \in 1..Len(ws) :
                          LET w == ws[j]  z == zs[i]  den == DyNorm2(w)
                              num == CMulDy(z, <<w[1], DyNeg(w[2])>>)
                          IN DyIsZero(den) \/ (HasQ(res[1], num[1], den) /\ HasQ(res[2], num[2], den))
       [] f = "abs" -> \A i \in 1..Len(zs) : HasSqrt(res[1], DyNorm2(zs[i]))
=============================================================================
