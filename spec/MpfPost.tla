------------------------------- MODULE MpfPost -------------------------------
(***************************************************************************)
(* Layer 3: property-level postconditions of the real-number operations,    *)
(* written only in terms of exact values and the rounding oracle of Exact.  *)
(* Arguments are spec-level values: mpf records, integers Z, native ints.   *)
(* An outcome o is a tagged record                                          *)
(*    [k |-> "f", v |-> mpf]   [k |-> "z", v |-> Z]   [k |-> "i", v |-> int] *)
(*    [k |-> "b", v |-> BOOLEAN]   [k |-> "x", v |-> exception class name]    *)
(* p = 0 means "exact" (prec=inf / exact=True).                             *)
(***************************************************************************)
EXTENDS Integers, Sequences, SequencesExt

CONSTANTS ZZero, ZOne, ZFromInt(_), ZToInt(_), ZSign(_), ZIsZero(_), ZNeg(_), ZAbs(_),
          ZAdd(_, _), ZSub(_, _), ZMul(_, _), ZMulSmall(_, _), ZCmp(_, _),
          ZShl(_, _), ZShr(_, _), ZBitLen(_), ZTrailing(_), ZIsOdd(_),
          ZLowZero(_, _), ZBit(_, _), ZPow(_, _), ZPow2(_), ZDivFloor(_, _), ZMod(_, _)

INSTANCE Exact

OutF(o) == o.k = "f"
Raises(o, exc) == o.k = "x" /\ o.v = exc
IsInfinite(x) == x \in {FInf, FNInf}
IsNanOrInf(x) == x \in {FInf, FNInf, FNan}

\* a finite mpf rounded to p bits (p = 0: exact, but re-encoded canonically)
RoundMpf(x, p, rnd) == IF x = FZero THEN FZero
                       ELSE IF p = 0 THEN Encode(Val(x)) ELSE RoundDy(Val(x), p, rnd)

(*************************** C02: arithmetic *******************************)
PostPos(x, p, rnd, o) == OutF(o) /\ o.v = (IF IsNanOrInf(x) THEN x ELSE RoundMpf(x, p, rnd))
PostNeg(x, p, rnd, o) == OutF(o) /\ o.v = (IF IsNanOrInf(x) THEN FNeg(x) ELSE RoundMpf(FNeg(x), p, rnd))
PostAbs(x, p, rnd, o) ==
  OutF(o) /\ o.v = (IF x = FNan THEN FNan ELSE IF IsInfinite(x) THEN FInf
                    ELSE RoundMpf(IF IsFin(x) THEN [x EXCEPT !.s = 0] ELSE x, p, rnd))

AddExpected(x, y, p, rnd) ==
  IF x = FNan \/ y = FNan THEN FNan
  ELSE IF IsInfinite(x) THEN (IF IsInfinite(y) /\ y # x THEN FNan ELSE x)
  ELSE IF IsInfinite(y) THEN y
  ELSE IF x = FZero THEN RoundMpf(y, p, rnd)
  ELSE IF y = FZero THEN RoundMpf(x, p, rnd)
  ELSE IF p = 0 THEN Encode(DyAdd(Val(x), Val(y)))
  ELSE RoundSum(Val(x), Val(y), p, rnd)
PostAdd(x, y, p, rnd, o) == OutF(o) /\ o.v = AddExpected(x, y, p, rnd)
PostSub(x, y, p, rnd, o) == OutF(o) /\ o.v = AddExpected(x, FNeg(y), p, rnd)

MulExpected(x, y, p, rnd) ==
  IF x = FNan \/ y = FNan THEN FNan
  ELSE IF IsInfinite(x) \/ IsInfinite(y)
       THEN (IF x = FZero \/ y = FZero THEN FNan
             ELSE IF FSignum(x) * FSignum(y) > 0 THEN FInf ELSE FNInf)
  ELSE IF x = FZero \/ y = FZero THEN FZero
  ELSE LET d == DyMul(Val(x), Val(y)) IN IF p = 0 THEN Encode(d) ELSE RoundDy(d, p, rnd)
PostMul(x, y, p, rnd, o) == OutF(o) /\ o.v = MulExpected(x, y, p, rnd)

PostDiv(x, y, p, rnd, o) ==
  IF y = FZero THEN Raises(o, "ZeroDivisionError")
  ELSE IF x = FNan \/ y = FNan THEN OutF(o) /\ o.v = FNan
  ELSE IF IsInfinite(x) THEN OutF(o) /\ o.v = (IF IsInfinite(y) THEN FNan
                                               ELSE IF FSignum(x) * FSignum(y) > 0 THEN FInf ELSE FNInf)
  ELSE IF IsInfinite(y) \/ x = FZero THEN OutF(o) /\ o.v = FZero
  ELSE OutF(o) /\ IsRoundQ2(o.v, x.s # y.s, x.m, y.m, x.e - y.e, p, rnd)

\* x >= 0 (negative arguments are outside this operation's real domain)
PostSqrt(x, p, rnd, o) ==
  IF x \in {FZero, FInf, FNan} THEN OutF(o) /\ o.v = x
  ELSE OutF(o) /\ IsRoundSqrt(o.v, Val(x), p, rnd)

PostFromInt(n, p, rnd, o) ==
  OutF(o) /\ o.v = (IF p = 0 THEN Encode(Dy(n, 0)) ELSE RoundDy(Dy(n, 0), p, rnd))
\* (-1)^neg * N/D
PostFromRational(neg, N, D, p, rnd, o) == OutF(o) /\ IsRoundQ(o.v, neg, N, D, p, rnd)

\* exact sum of a sequence of finite mpfs (gaps are bounded by the caller's side condition)
DySum(xs) == FoldLeft(LAMBDA acc, x : IF x = FZero THEN acc ELSE DyAdd(acc, Val(x)), DyZero, xs)
PostSum(xs, p, rnd, o) ==
  OutF(o) /\ LET d == DySum(xs) IN o.v = (IF p = 0 THEN Encode(d) ELSE RoundDy(d, p, rnd))
DyDot(xs, ys) == FoldLeft(LAMBDA acc, i : IF xs[i] = FZero \/ ys[i] = FZero THEN acc
                                          ELSE DyAdd(acc, DyMul(Val(xs[i]), Val(ys[i]))),
                          DyZero, [i \in 1..Len(xs) |-> i])
PostDot(xs, ys, p, rnd, o) ==
  OutF(o) /\ LET d == DyDot(xs, ys) IN o.v = (IF p = 0 THEN Encode(d) ELSE RoundDy(d, p, rnd))

(*************************** C06: integer parts, modulo ********************)
DyCeil(d) == IF DyIsInt(d) THEN DyFloor(d) ELSE ZAdd(DyFloor(d), ZOne)
\* nearest integer, ties to even
DyNint(d) ==
  LET f == DyFloor(d)
      frac2 == DySub(DyShift(d, 1), Dy(ZShl(f, 1), 0))       \* 2*(d - f) in [0, 2)
      c == DyCmp(frac2, Dy(ZOne, 0))
  IN IF c < 0 THEN f ELSE IF c > 0 THEN ZAdd(f, ZOne)
     ELSE IF ZIsOdd(f) THEN ZAdd(f, ZOne) ELSE f
IntPartExpected(kind, x, p, rnd) ==
  IF IsNanOrInf(x) \/ x = FZero THEN x
  ELSE LET d == Val(x)
           z == CASE kind = "floor" -> DyFloor(d) [] kind = "ceil" -> DyCeil(d) [] OTHER -> DyNint(d)
       IN IF p = 0 THEN Encode(Dy(z, 0)) ELSE RoundDy(Dy(z, 0), p, rnd)
PostIntPart(kind, x, p, rnd, o) == OutF(o) /\ o.v = IntPartExpected(kind, x, p, rnd)
\* frac(x) = x - floor(x), in [0,1), correctly rounded (it may round up to 1 only if the
\* exact value exceeds every p-bit number below 1)
PostFrac(x, p, rnd, o) ==
  IF IsNanOrInf(x) THEN OutF(o) /\ o.v = FNan
  ELSE IF x = FZero THEN OutF(o) /\ o.v = FZero
  ELSE LET d == Val(x)
           fr == DySub(d, Dy(DyFloor(d), 0))
       IN OutF(o) /\ o.v = (IF p = 0 THEN Encode(fr) ELSE RoundDy(fr, p, rnd))
\* int(x) truncates toward zero
PostToInt(x, o) ==
  IF IsNanOrInf(x) THEN o.k = "x"
  ELSE IF x = FZero THEN o.k = "z" /\ ZIsZero(o.v)
  ELSE LET d == Val(x)
           t == IF DySign(d) >= 0 THEN DyFloor(d) ELSE DyCeil(d)
       IN o.k = "z" /\ ZCmp(o.v, t) = 0
(* x mod y: the harness supplies the integer quotient k = floor(x/y) as an   *)
(* untrusted witness; the spec verifies 0 <= (x - k*y)/y < 1 exactly and     *)
(* then judges the rounding of x - k*y.                                      *)
ModExact(x, y, k) == DySub(Val(x), DyMul(Val(y), Dy(k, 0)))
ModWitnessOK(x, y, k) ==
  LET r == ModExact(x, y, k)  vy == Val(y)
  IN \/ DyIsZero(r)
     \/ (DySign(r) = DySign(vy) /\ DyCmpAbs(r, vy) < 0)
PostMod(x, y, k, p, rnd, o) ==
  IF IsNanOrInf(x) \/ IsNanOrInf(y) THEN OutF(o) /\ o.v = FNan
  ELSE IF y = FZero THEN TRUE          \* x mod 0 is outside the statement of C06: not judged
  ELSE IF x = FZero THEN OutF(o) /\ o.v = FZero
  ELSE /\ ModWitnessOK(x, y, k)
       /\ OutF(o) /\ o.v = RoundDy(ModExact(x, y, k), p, rnd)


(*************************** C03: integer powers ***************************)
FOne == Mpf(0, ZOne, 0, 1)
\* exact value of x^n for finite nonzero x: (-1)^neg * N/D * 2^k
PowExactQ(x, n) ==
  LET an == IAbs(n)
      mp == ZPow(x.m, an)
      neg == x.s = 1 /\ an % 2 = 1
  IN IF n >= 0 THEN [neg |-> neg, N |-> mp, D |-> ZOne, k |-> x.e * an]
     ELSE [neg |-> neg, N |-> ZOne, D |-> mp, k |-> -(x.e * an)]
PostPowInt(x, n, p, rnd, o) ==
  IF x = FNan THEN OutF(o) /\ o.v = FNan
  ELSE IF IsInfinite(x) THEN
       (IF n > 0 THEN OutF(o) /\ o.v = (IF x = FNInf /\ n % 2 = 1 THEN FNInf ELSE FInf)
        ELSE IF n < 0 THEN OutF(o) /\ o.v = FZero ELSE TRUE)
  ELSE IF x = FZero THEN
       (IF n > 0 THEN OutF(o) /\ o.v = FZero
        ELSE IF n = 0 THEN OutF(o) /\ o.v = FOne
        ELSE Raises(o, "ZeroDivisionError"))
  ELSE IF n = 0 THEN OutF(o) /\ o.v = FOne
  ELSE
  LET q == PowExactQ(x, n)
      r == o.v
      fits == IF n > 0 THEN ZBitLen(q.N) <= p ELSE x.bc = 1
      exactv == IF n > 0 THEN Encode(Dy(IF q.neg THEN ZNeg(q.N) ELSE q.N, q.k))
                ELSE Mpf(IF q.neg THEN 1 ELSE 0, ZOne, q.k, 1)
      cmpv == CmpQ2(q.N, q.D, q.k, r.m, r.e)              \* sign(|v| - |r|)
  IN /\ OutF(o)
     /\ IF fits THEN r = exactv
        ELSE /\ RoundedShape(r, q.neg, p)
             /\ (rnd = "n" => WithinUlpsQ2(r, q.neg, q.N, q.D, q.k, p, 1))
             /\ (Toward(rnd, q.neg) => cmpv >= 0)
             /\ (Away(rnd, q.neg) => cmpv <= 0)
             /\ (n > 0 /\ ZBitLen(x.m) * n <= 200 => IsRoundQ2(r, q.neg, q.N, q.D, q.k, p, rnd))

(*************************** C05: comparison and hashing *******************)
\* exact three-way comparison of two non-nan values; infinities ordered as usual
FCmp(x, y) ==
  IF x = y THEN 0
  ELSE IF x = FInf \/ y = FNInf THEN 1
  ELSE IF x = FNInf \/ y = FInf THEN -1
  ELSE DyCmp(IF x = FZero THEN DyZero ELSE Val(x), IF y = FZero THEN DyZero ELSE Val(y))
RelHolds(rel, c) ==
  CASE rel = "lt" -> c < 0 [] rel = "le" -> c <= 0 [] rel = "gt" -> c > 0
    [] rel = "ge" -> c >= 0 [] rel = "eq" -> c = 0 [] rel = "ne" -> c # 0
PostRel(rel, x, y, o) ==
  o.k = "b" /\ o.v = (IF x = FNan \/ y = FNan THEN rel = "ne" ELSE RelHolds(rel, FCmp(x, y)))
\* CPython's numeric hash of a dyadic, with modulus 2^hb - 1, on Z
HashDy(x, hb) ==
  LET P == ZSub(ZPow2(hb), ZOne)
      em == x.e % hb                                   \* TLC's % is the floor remainder
      h == ZMod(ZShl(ZMod(x.m, P), em), P)
      hs == IF x.s = 1 THEN ZNeg(h) ELSE h
  IN IF ZCmp(hs, ZNeg(ZOne)) = 0 THEN ZNeg(ZFromInt(2)) ELSE hs

(*************************** C39: helpers **********************************)
\* mag(x): |x| <= 2^m and m at most 2 above optimal
PostMag(x, o) ==
  IF x = FZero THEN o.k = "ninf"
  ELSE IF IsInfinite(x) THEN o.k = "pinf"
  ELSE IF x = FNan THEN o.k = "nan"
  ELSE LET top == DyTop(Val(x))                          \* 2^(top-1) <= |x| < 2^top
           opt == IF x.bc = 1 THEN top - 1 ELSE top       \* least m with |x| <= 2^m
       IN o.k = "i" /\ o.v >= opt /\ o.v <= opt + 2
\* frexp: x = y * 2^n exactly with 1/2 <= |y| < 1
PostFrexp(x, oy, on) ==
  IF x = FZero THEN oy = FZero /\ on = 0
  ELSE /\ IsFin(oy) /\ Canonical(oy) /\ DyEq(DyShift(Val(oy), on), Val(x))
       /\ DyTop(Val(oy)) = 0
PostLdexp(x, n, o) == OutF(o) /\ o.v = (IF IsFin(x) THEN Encode(DyShift(Val(x), n)) ELSE x)
PostIsInt(x, o) == o.k = "b" /\ o.v = (x = FZero \/ (IsFin(x) /\ DyIsInt(Val(x))))
\* nint_distance(x) = (n, d): n a nearest integer; d = -inf iff x integer; else 2^(d-1) <= |x-n| <= 2^(d+1)
PostNintDistance(x, n, o) ==
  LET diff == DySub(Val(x), Dy(n, 0))
      half == Dy(ZOne, -1)
  IN /\ DyCmpAbs(diff, half) <= 0
     /\ IF DyIsZero(diff) THEN o.k = "ninf"
        ELSE o.k = "i" /\ DyCmpAbs(diff, Dy(ZOne, o.v - 1)) >= 0 /\ DyCmpAbs(diff, Dy(ZOne, o.v + 1)) <= 0

\* the same for a rational x = (-1)^neg N / D (mpq arguments): x - n = (P - n D) / D
PostNintDistanceQ(neg, N, D, n, o) ==
  LET P == IF neg THEN ZNeg(N) ELSE N
      a == ZAbs(ZSub(P, ZMul(n, D)))
      CmpShift(k) == IF k >= 0 THEN ZCmp(a, ZShl(D, k)) ELSE ZCmp(ZShl(a, -k), D)      \* sign(|x - n| - 2^k)
  IN /\ ZCmp(ZShl(a, 1), D) <= 0
     /\ IF ZIsZero(a) THEN o.k = "ninf"
        ELSE o.k = "i" /\ CmpShift(o.v - 1) >= 0 /\ CmpShift(o.v + 1) <= 0

(*************************** C09: machine floats ***************************)
\* IEEE double from its fields: sign, biased exponent be (0..2047), 52-bit fraction fr (Z)
F64Val(s, be, fr) ==
  IF be = 2047 THEN (IF ZIsZero(fr) THEN (IF s = 1 THEN FNInf ELSE FInf) ELSE FNan)
  ELSE IF be = 0 THEN Encode(Dy(IF s = 1 THEN ZNeg(fr) ELSE fr, -1074))
  ELSE LET m == ZAdd(ZPow2(52), fr) IN Encode(Dy(IF s = 1 THEN ZNeg(m) ELSE m, be - 1075))
\* float(x): nearest double (ties to even) in the normal range, infinity beyond the largest double
F64Max == Dy(ZSub(ZPow2(53), ZOne), 971)
PostToFloat(x, os, obe, ofr) ==
  LET got == F64Val(os, obe, ofr) IN
  IF x = FNan THEN got = FNan
  ELSE IF IsInfinite(x) \/ x = FZero THEN got = x
  ELSE LET d == Val(x)
           top == DyTop(d)
       IN IF top <= -1022 THEN TRUE                       \* subnormal range: not judged
          ELSE LET r == RoundDy(d, 53, "n")
               IN IF DyCmpAbs(Val(r), F64Max) > 0
                  THEN got = (IF x.s = 1 THEN FNInf ELSE FInf)
                  ELSE got = r
=============================================================================
