------------------------------ MODULE MpfMachineL ------------------------------
(* MpfMachineCore on limb integers (the code's real constants, exponents astride the far threshold). *)
EXTENDS ZLimb
CONSTANTS MB, ES, EB, PS, FAR, G, DX, PT, Depth, Ops, GROW, WK, NS, UNARY
VARIABLES a, b, st, depth
INSTANCE MpfMachineCore
ESQuick == -2..2
ESThorough == -3..3
NSQuick == {-5, -3, -2, -1, 0, 1, 2, 3, 4, 5, 7}
NSReal == {-3, 2, 3, 5, 8}
ESReal == {-104, -101, -100, -1, 0, 2}
=============================================================================
