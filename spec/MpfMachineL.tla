------------------------------ MODULE MpfMachineL ------------------------------
(* MpfMachineCore on limb integers (the code's real constants, exponents astride the far threshold). *)
EXTENDS ZLimb
CONSTANTS MB, ES, EB, PS, FAR, G, DX, Depth, Ops, GROW, WK
VARIABLES a, b, st, depth
INSTANCE MpfMachineCore
ESReal == {-104, -101, -100, -1, 0, 2}
=============================================================================
