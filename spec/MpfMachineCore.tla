---------------------------- MODULE MpfMachineCore ----------------------------
(***************************************************************************)
(* M1 for the arithmetic core (C01, C02, C05, C06, C10): a two-register     *)
(* machine over a miniature floating-point universe ("MiniFloat": odd       *)
(* mantissas below 2^MB, exponents from the set ES, both signs, zero).  In   *)
(* every reachable state the transcribed libmp algorithms (MpfAlgo) are     *)
(* compared with the property-level postconditions (MpfPost / Exact) for    *)
(* EVERY operation in Ops, precision in PS and rounding mode:               *)
(*    AlgoMeetsPost   Algo = the correctly rounded exact result  (C02, C06) *)
(*    Canon           every result is canonical                       (C01) *)
(*    Bounded         every result has at most prec bits              (C10) *)
(*    CmpExact        the comparison fast paths agree with exact order (C05)*)
(* Apply feeds a result back into a register, so operands of the next step  *)
(* include values no p-bit rounding produces directly (longer mantissas,    *)
(* larger exponents).                                                       *)
(* The module is written over ZSig and instantiated twice:                  *)
(*   MpfMachine   native integers, the code's constants SCALED (FAR = 2,    *)
(*                G = 1, DX = 2) so that every branch is reachable in a     *)
(*                universe small enough for exhaustive search;              *)
(*   MpfMachineL  limb integers, the code's REAL constants (FAR = 100,      *)
(*                G = 4, DX = 5) and an exponent set straddling the far     *)
(*                threshold.                                                *)
(* Emit / EmitCmp print every (op, operands, prec, mode, result) for replay *)
(* on the real libmp functions (M2): with the real constants the real code  *)
(* must return the identical tuple, bit count included; with the scaled     *)
(* ones the shortcuts sit elsewhere but the results must still be the same. *)
(***************************************************************************)
EXTENDS Integers, Sequences, SequencesExt, TLC
CONSTANTS ZZero, ZOne, ZFromInt(_), ZToInt(_), ZSign(_), ZIsZero(_), ZNeg(_), ZAbs(_),
          ZAdd(_, _), ZSub(_, _), ZMul(_, _), ZMulSmall(_, _), ZCmp(_, _),
          ZShl(_, _), ZShr(_, _), ZBitLen(_), ZTrailing(_), ZIsOdd(_),
          ZLowZero(_, _), ZBit(_, _), ZPow(_, _), ZPow2(_), ZDivFloor(_, _), ZMod(_, _),
          MB, ES, EB, PS, FAR, G, DX, PT, Depth, Ops, GROW, WK, NS, UNARY
VARIABLES a, b, st, depth
INSTANCE MpfAlgo
vars == <<a, b, st, depth>>
RECURSIVE P2(_)
P2(k) == IF k = 0 THEN 1 ELSE 2 * P2(k - 1)
\* WK: a few wide mantissas 2^k + 1 (longer than any precision in PS, so that the bit-count guards matter)
U == {FZero} \cup {Mpf(s, ZFromInt(m), e, ZBitLen(ZFromInt(m))) : s \in {0, 1}, m \in {k \in 1..(P2(MB) - 1) : k % 2 = 1}, e \in ES}
       \cup {Mpf(s, ZAdd(ZShl(ZOne, k), ZOne), e, k + 1) : s \in {0, 1}, k \in WK, e \in ES}
Algo(op, x, y, p, rnd) ==
  CASE op = "add" -> AAdd(x, y, p, rnd) [] op = "sub" -> AAdd(x, FNeg(y), p, rnd)
    [] op = "mul" -> AMul(x, y, p, rnd) [] op = "div" -> ADiv(x, y, p, rnd) [] op = "mod" -> AMod(x, y, p, rnd)
\* the exact result as a rational (n / d) * 2^e of ZSig integers, then the correctly rounded value
ExactQ(op, x, y) ==
  LET vx == IF x = FZero THEN Dy(ZZero, 0) ELSE Val(x)  vy == IF y = FZero THEN Dy(ZZero, 0) ELSE Val(y)
      e == IMin(vx.e, vy.e)
      X == ZShl(vx.m, vx.e - e)  Y == ZShl(vy.m, vy.e - e)            \* integers at the common exponent e
  IN CASE op = "add" -> [n |-> ZAdd(X, Y), d |-> ZOne, e |-> e]
       [] op = "sub" -> [n |-> ZSub(X, Y), d |-> ZOne, e |-> e]
       [] op = "mul" -> [n |-> ZMul(vx.m, vy.m), d |-> ZOne, e |-> vx.e + vy.e]
       [] op = "div" -> [n |-> X, d |-> Y, e |-> 0]
       [] op = "mod" -> [n |-> ZMod(X, Y), d |-> ZOne, e |-> e]
Expected(op, x, y, p, rnd) ==
  LET q == ExactQ(op, x, y)
      neg == (ZSign(q.n) < 0) # (ZSign(q.d) < 0)
  IN FScale(RoundQ(neg, ZAbs(q.n), ZAbs(q.d), p, rnd), q.e)
Defined(op, y) == ~(op \in {"div", "mod"} /\ y = FZero)

\* unary operations with an integer parameter: integer powers x^n for n in NS, and floor / ceil / nint
\* (C03, C06).  Checked against PostPowInt / IntPartExpected in the same states (register a only).
PowOK == st = 2 /\ a # FZero => \A n \in NS, p \in PS, rnd \in Modes :
            PostPowInt(a, n, p, rnd, [k |-> "f", v |-> APowInt(a, n, p, rnd)])
RoundIntOK == st = 2 => \A kind \in {"floor", "ceil", "nint"} :
            ARoundInt(a, CASE kind = "floor" -> "f" [] kind = "ceil" -> "c" [] OTHER -> "n") = IntPartExpected(kind, a, 0, "n")
SqrtOK == st = 2 /\ a.s = 0 => \A p \in PS, rnd \in Modes :
            LET r == ASqrt(a, p, rnd) IN IF a = FZero THEN r = FZero ELSE Canonical(r) /\ IsRoundSqrt(r, Val(a), p, rnd)
EmitSqrt == st = 2 /\ a.s = 0 /\ b = FZero => \A p \in PS, rnd \in Modes :
            LET r == ASqrt(a, p, rnd) IN PrintT(<<"S", a.s, a.m, a.e, a.bc, p, rnd, r.s, r.m, r.e, r.bc>>)
EmitPow == st = 2 /\ a # FZero /\ b = FZero => \A n \in NS, p \in PS, rnd \in Modes :
            LET r == APowInt(a, n, p, rnd) IN PrintT(<<"P", a.s, a.m, a.e, a.bc, n, p, rnd, r.s, r.m, r.e, r.bc>>)
EmitRoundInt == st = 2 /\ b = FZero => \A rnd \in {"f", "c", "n"} :
            LET r == ARoundInt(a, rnd) IN PrintT(<<"R", a.s, a.m, a.e, a.bc, rnd, r.s, r.m, r.e, r.bc>>)

Init == a = FZero /\ b = FZero /\ st = 0 /\ depth = 0
InBounds(r) == r = FZero \/ (r.bc <= MB + GROW /\ r.e >= -EB /\ r.e <= EB)
Next == \/ st = 0 /\ a' \in U /\ b' = b /\ st' = 1 /\ depth' = depth
        \/ st = 1 /\ b' \in (IF UNARY THEN {FZero} ELSE U) /\ a' = a /\ st' = 2 /\ depth' = depth     \* UNARY: only register a matters
        \/ /\ st = 2 /\ depth < Depth
           /\ \E op \in Ops, p \in PS, rnd \in Modes :
                /\ Defined(op, b)
                /\ LET r == Algo(op, a, b, p + GROW, rnd) IN InBounds(r) /\ a' = r   \* a longer-than-p operand for the next step
           /\ b' = b /\ st' = 1 /\ depth' = depth + 1
Spec == Init /\ [][Next]_vars

All(P(_, _, _)) == st = 2 => \A op \in Ops, p \in PS, rnd \in Modes : Defined(op, b) => P(op, p, rnd)
AlgoMeetsPost == All(LAMBDA op, p, rnd : Algo(op, a, b, p, rnd) = Expected(op, a, b, p, rnd))
Canon == All(LAMBDA op, p, rnd : Canonical(Algo(op, a, b, p, rnd)))
Bounded == All(LAMBDA op, p, rnd : BitsLe(Algo(op, a, b, p, rnd), p))
CmpExact == st = 2 => ACmp(a, b) = FCmp(a, b)
Emit == All(LAMBDA op, p, rnd : LET r == Algo(op, a, b, p, rnd)
           IN PrintT(<<"T", op, a.s, a.m, a.e, a.bc, b.s, b.m, b.e, b.bc, p, rnd, r.s, r.m, r.e, r.bc>>))
EmitCmp == st = 2 => PrintT(<<"K", a.s, a.m, a.e, a.bc, b.s, b.m, b.e, b.bc, ACmp(a, b)>>)
=============================================================================
