-------------------------------- MODULE Pickle --------------------------------
(***************************************************************************)
(* C40: to_pickable / from_pickable.  A raw mpf (sign, man, exp, bc) is     *)
(* pickled as (sign, hex digits of man, exp, bc); the model checks over a   *)
(* whole range of mantissas and the special encodings that decoding the     *)
(* encoding is the identity (digits most significant first, "0" for zero).  *)
(***************************************************************************)
EXTENDS Integers, Sequences, TLC
CONSTANT MMAX
VARIABLES m, st
RECURSIVE ToHex(_)
ToHex(n) == IF n < 16 THEN <<n>> ELSE Append(ToHex(n \div 16), n % 16)
RECURSIVE FromHexAcc(_, _)
FromHexAcc(ds, acc) == IF ds = <<>> THEN acc ELSE FromHexAcc(Tail(ds), acc * 16 + Head(ds))
FromHex(ds) == FromHexAcc(ds, 0)
ToPickable(x) == <<x[1], ToHex(x[2]), x[3], x[4]>>
FromPickable(y) == <<y[1], FromHex(y[2]), y[3], y[4]>>
Specials == {<<0, 0, 0, 0>>, <<0, 0, -456, -2>>, <<1, 0, -789, -3>>, <<0, 0, -123, -1>>}
Init == m = 0 /\ st = 0
Next == st = 0 /\ m' \in 0..MMAX /\ st' = 1
RoundTrip == st = 1 =>
   /\ \A s \in {0, 1}, e \in {-3, 0, 7} : FromPickable(ToPickable(<<s, m, e, 5>>)) = <<s, m, e, 5>>
   /\ \A x \in Specials : FromPickable(ToPickable(x)) = x
   /\ ToHex(m)[1] # 0 \/ m = 0
=============================================================================
