--------------------------------- MODULE Oblig ---------------------------------
(***************************************************************************)
(* Layer 5 (exact part): proof obligations over the rationals.              *)
(* Many properties of the numerical layers (finite sums, polynomials,       *)
(* rational closed forms, terminating hypergeometric series, orthogonal     *)
(* polynomials, linear-algebra certificates and residuals, recurrences and  *)
(* contiguous relations between outputs, consistency across precisions)     *)
(* reduce to inequalities between exact rational expressions in the logged  *)
(* inputs and outputs.  An event of kind "oblig" carries such inequalities  *)
(* as expression trees; this module evaluates them EXACTLY (numerator /     *)
(* denominator on limb integers) and decides them -- no floating point, no  *)
(* tolerance in the evaluation itself.  The number-theoretic and            *)
(* combinatorial sequences (factorial, double factorial, binomial, rising   *)
(* factorial, Fibonacci, Bernoulli, Euler, Stirling, Bell, primes) are      *)
(* defined here by their recurrences and are the oracle for C25.            *)
(*                                                                         *)
(* Expression nodes (JSON objects, field t):                               *)
(*   z {s,m}  f {s,m,e,bc}  q {s,n,d}  i {v}        literals               *)
(*   add/mul/max/min {a:[..]}   sub/div {a:[x,y]}   neg/abs/sq {a:[x]}      *)
(*   pow {a:[x], n}   pow2 {n}   poly {c:[..], x}   k  (summation index)    *)
(*   sumk/prodk {lo, hi, body}                                             *)
(*   fact/fact2/fib/bern/euler/bell/primepi {n}  binom/stir1/stir2 {n,k}    *)
(* Judgements (field j): le / lt / eq {a,b}, all / any {js:[..]}            *)
(***************************************************************************)
EXTENDS Integers, Sequences, SequencesExt, FiniteSets
CONSTANTS ZZero, ZOne, ZFromInt(_), ZToInt(_), ZSign(_), ZIsZero(_), ZNeg(_), ZAbs(_),
          ZAdd(_, _), ZSub(_, _), ZMul(_, _), ZMulSmall(_, _), ZCmp(_, _),
          ZShl(_, _), ZShr(_, _), ZBitLen(_), ZTrailing(_), ZIsOdd(_),
          ZLowZero(_, _), ZBit(_, _), ZPow(_, _), ZPow2(_), ZDivFloor(_, _), ZMod(_, _),
          ZMk(_, _)
INSTANCE DecPost

(*************************** rationals <<n, d>>, d > 0 *********************)
Q(n, d) == <<n, d>>
QInt(z) == <<z, ZOne>>
QZero == QInt(ZZero)
QOne == QInt(ZOne)
QNat(k) == QInt(ZFromInt(k))
\* strip the common power of two (cheap normalisation; keeps dyadic arithmetic small)
QNorm(q) ==
  IF ZIsZero(q[1]) THEN QZero
  ELSE LET t == IMin(ZTrailing(q[1]), ZTrailing(q[2]))
       IN IF t = 0 THEN q ELSE <<ZShr(q[1], t), ZShr(q[2], t)>>
QAdd(a, b) == IF ZCmp(a[2], b[2]) = 0 THEN QNorm(<<ZAdd(a[1], b[1]), a[2]>>)
              ELSE QNorm(<<ZAdd(ZMul(a[1], b[2]), ZMul(b[1], a[2])), ZMul(a[2], b[2])>>)
QNeg(a) == <<ZNeg(a[1]), a[2]>>
QSub(a, b) == QAdd(a, QNeg(b))
QMul(a, b) == QNorm(<<ZMul(a[1], b[1]), ZMul(a[2], b[2])>>)
QInv(a) == IF ZSign(a[1]) > 0 THEN <<a[2], a[1]>> ELSE <<ZNeg(a[2]), ZAbs(a[1])>>        \* a # 0
QDiv(a, b) == QMul(a, QInv(b))
QAbs(a) == <<ZAbs(a[1]), a[2]>>
QSign(a) == ZSign(a[1])
QCmp(a, b) == IF ZCmp(a[2], b[2]) = 0 THEN ZCmp(a[1], b[1]) ELSE ZCmp(ZMul(a[1], b[2]), ZMul(b[1], a[2]))
QPow2(k) == IF k >= 0 THEN QInt(ZPow2(k)) ELSE <<ZOne, ZPow2(-k)>>
QFromDy(d) == IF d.e >= 0 THEN QInt(ZShl(d.m, d.e)) ELSE QNorm(<<d.m, ZPow2(-d.e)>>)
RECURSIVE QPow(_, _)
QPow(a, n) == IF n = 0 THEN QOne
              ELSE IF n < 0 THEN QInv(QPow(a, -n))
              ELSE IF n % 2 = 0 THEN LET h == QPow(a, n \div 2) IN QMul(h, h)
              ELSE QMul(a, QPow(a, n - 1))
QMax(a, b) == IF QCmp(a, b) >= 0 THEN a ELSE b
QMin(a, b) == IF QCmp(a, b) <= 0 THEN a ELSE b

(*************************** integer sequences (C25) ***********************)
IRange(lo, hi) == SubSeq([j \in 1..(IMax(hi - lo + 1, 0)) |-> lo + j - 1], 1, IMax(hi - lo + 1, 0))
ZProdRange(lo, hi) == FoldLeft(LAMBDA acc, j : ZMulSmall(acc, j), ZOne, IRange(lo, hi))     \* lo*(lo+1)*...*hi
Fact(n) == ZProdRange(2, n)
Fact2(n) == FoldLeft(LAMBDA acc, j : ZMulSmall(acc, n - 2 * (j - 1)), ZOne, IRange(1, (n + 1) \div 2))   \* n!! for n >= -1
Binom(n, k) == IF k < 0 \/ k > n THEN ZZero
               ELSE LET kk == IMin(k, n - k)      \* multiplicative formula, every division exact and by a small number
                    IN FoldLeft(LAMBDA acc, j : ZDivFloor(ZMulSmall(acc, n - kk + j), ZFromInt(j)), ZOne, IRange(1, kk))
Fib(n) == FoldLeft(LAMBDA acc, j : <<acc[2], ZAdd(acc[1], acc[2])>>, <<ZZero, ZOne>>, IRange(1, n))[1]
Tup(f) == SubSeq(f, 1, Len(f))          \* force a lazily defined function 1..n into a tuple
(* Euler zigzag numbers A_0..A_n by the Seidel-Entringer-Arnold triangle                     *)
(*   E(m,0) = 0, E(m,k) = E(m,k-1) + E(m-1,m-k);  A_m = E(m,m)  (integers only).            *)
(* A_(2j-1) are the tangent numbers, A_(2j) the secant numbers:                               *)
(*   B_(2j) = (-1)^(j-1) * 2j * A_(2j-1) / (4^j (4^j - 1)),   E_(2j) = (-1)^j A_(2j).         *)
ZigRows(n) ==     \* the last row of the triangle, as a tuple indexed 1..n+1 (k = 0..n)
  FoldLeft(LAMBDA row, m :
             FoldLeft(LAMBDA acc, k : Append(acc, ZAdd(acc[k], row[m - k + 1])), <<ZZero>>, IRange(1, m)),
           <<ZOne>>, IRange(1, n))
Zig(n) == ZigRows(n)[n + 1]
Bern(n) ==
  IF n = 0 THEN QOne
  ELSE IF n = 1 THEN <<ZNeg(ZOne), ZFromInt(2)>>
  ELSE IF n % 2 = 1 THEN QZero
  ELSE LET j == n \div 2
           num == ZMulSmall(Zig(n - 1), n)
           den == ZMul(ZPow2(n), ZSub(ZPow2(n), ZOne))
       IN QNorm(<<IF j % 2 = 1 THEN num ELSE ZNeg(num), den>>)
EulerNum(n) == IF n % 2 = 1 THEN ZZero ELSE LET a == Zig(n) IN IF (n \div 2) % 2 = 0 THEN a ELSE ZNeg(a)
\* Stirling numbers by rows: s(n,k) signed first kind, S(n,k) second kind
Stir1Row(n) == FoldLeft(LAMBDA row, m :        \* row m from row m-1: s(m,k) = s(m-1,k-1) - (m-1) s(m-1,k)
                 Tup([k \in 1..(m + 1) |-> ZSub(IF k >= 2 THEN row[k - 1] ELSE ZZero,
                                                IF k <= m THEN ZMulSmall(row[k], m - 1) ELSE ZZero)]),
                 <<ZOne>>, IRange(1, n))
Stir2Row(n) == FoldLeft(LAMBDA row, m :        \* S(m,k) = S(m-1,k-1) + k S(m-1,k)
                 Tup([k \in 1..(m + 1) |-> ZAdd(IF k >= 2 THEN row[k - 1] ELSE ZZero,
                                                IF k <= m THEN ZMulSmall(row[k], k - 1) ELSE ZZero)]),
                 <<ZOne>>, IRange(1, n))
Stir1(n, k) == IF k < 0 \/ k > n THEN ZZero ELSE Stir1Row(n)[k + 1]
Stir2(n, k) == IF k < 0 \/ k > n THEN ZZero ELSE Stir2Row(n)[k + 1]
Bell(n) == LET row == Stir2Row(n) IN FoldLeft(LAMBDA acc, x : ZAdd(acc, x), ZZero, row)
\* primes by trial division (native integers)
RECURSIVE NoDivisorFrom(_, _)
NoDivisorFrom(n, d) == d * d > n \/ (n % d # 0 /\ NoDivisorFrom(n, d + 1))
IsPrimeN(n) == n >= 2 /\ NoDivisorFrom(n, 2)
PrimePi(n) == Cardinality({m \in 2..n : IsPrimeN(m)})

(*************************** closed forms used by C22, C26-C28 *************)
\* terminating hypergeometric sum  sum_{k=0}^{N} prod (a_i)_k / prod (b_j)_k * z^k / k!   (running term)
HypTerm(as, bs, z, N) ==
  FoldLeft(LAMBDA st, k :          \* st = <<sum, term_k>>; term_{k+1} = term_k * prod(a_i + k) / prod(b_j + k) * z / (k+1)
             LET num == FoldLeft(LAMBDA acc, a : QMul(acc, QAdd(a, QNat(k))), QOne, as)
                 den == FoldLeft(LAMBDA acc, b : QMul(acc, QAdd(b, QNat(k))), QNat(k + 1), bs)
                 t2 == QDiv(QMul(QMul(st[2], num), z), den)
             IN <<QAdd(st[1], t2), t2>>,
           <<QOne, QOne>>, IRange(0, N - 1))[1]
\* orthogonal polynomials of integer degree by their three-term recurrences
\* (k+1) P_{k+1} = (A_k x + B_k) P_k - C_k P_{k-1}, divided by D_k = k+1 or 1
Ortho(fam, n, x, a) ==
  LET p1 == CASE fam = "legendre" -> x [] fam = "chebyt" -> x [] fam = "chebyu" -> QMul(QNat(2), x)
              [] fam = "hermite" -> QMul(QNat(2), x) [] fam = "laguerre" -> QSub(QAdd(QOne, a), x)
              [] fam = "gegenbauer" -> QMul(QMul(QNat(2), a), x)
      step(k, pk, pm) ==           \* P_{k+1} from P_k, P_{k-1}
        CASE fam = "legendre" -> QDiv(QSub(QMul(QMul(QNat(2 * k + 1), x), pk), QMul(QNat(k), pm)), QNat(k + 1))
          [] fam = "chebyt" -> QSub(QMul(QMul(QNat(2), x), pk), pm)
          [] fam = "chebyu" -> QSub(QMul(QMul(QNat(2), x), pk), pm)
          [] fam = "hermite" -> QSub(QMul(QMul(QNat(2), x), pk), QMul(QNat(2 * k), pm))
          [] fam = "laguerre" -> QDiv(QSub(QMul(QSub(QAdd(QNat(2 * k + 1), a), x), pk), QMul(QAdd(QNat(k), a), pm)), QNat(k + 1))
          [] fam = "gegenbauer" -> QDiv(QSub(QMul(QMul(QMul(QNat(2), QAdd(QNat(k), a)), x), pk),
                                             QMul(QSub(QAdd(QNat(k), QMul(QNat(2), a)), QOne), pm)), QNat(k + 1))
  IN IF n = 0 THEN QOne
     ELSE FoldLeft(LAMBDA st, k : <<step(k, st[1], st[2]), st[1]>>, <<p1, QOne>>, IRange(1, n - 1))[1]
\* integral over [a, b] of sum c_k x^k  (cs low -> high)
PolyInt(cs, a, b) ==
  FoldLeft(LAMBDA acc, k : QAdd(acc, QMul(cs[k], QDiv(QSub(QPow(b, k), QPow(a, k)), QNat(k)))), QZero, IRange(1, Len(cs)))
\* n-th derivative at x of sum c_k x^k
PolyDer(cs, x, n) ==
  FoldLeft(LAMBDA acc, k :      \* k = index 1..Len: degree d = k-1
             LET d == k - 1 IN
             IF d < n THEN acc
             ELSE QAdd(acc, QMul(QMul(cs[k], QInt(ZProdRange(d - n + 1, d))), QPow(x, d - n))),
           QZero, IRange(1, Len(cs)))

(*************************** expression evaluation *************************)
RECURSIVE Ev3(_, _, _)
EvSeq3(es, k, env) == Tup([i \in 1..Len(es) |-> Ev3(es[i], k, env)])
\* env: values of the event's shared subexpressions (node ref {i} is env[i+1])
Ev3(e, k, env) ==
  CASE e.t = "z" -> QInt(ZMk(e.s, e.m))
    [] e.t = "i" -> QNat(e.v)
    [] e.t = "f" -> IF Len(e.m) = 0 THEN QZero ELSE QFromDy(Dy(ZMk(e.s, e.m), e.e))
    [] e.t = "q" -> QNorm(<<ZMk(e.s, e.n), ZMk(0, e.d)>>)
    [] e.t = "k" -> QNat(k)
    [] e.t = "ref" -> env[e.i + 1]
    [] e.t = "add" -> FoldLeft(LAMBDA acc, x : QAdd(acc, x), QZero, EvSeq3(e.a, k, env))
    [] e.t = "mul" -> FoldLeft(LAMBDA acc, x : QMul(acc, x), QOne, EvSeq3(e.a, k, env))
    [] e.t = "max" -> LET xs == EvSeq3(e.a, k, env) IN FoldLeft(LAMBDA acc, x : QMax(acc, x), xs[1], xs)
    [] e.t = "min" -> LET xs == EvSeq3(e.a, k, env) IN FoldLeft(LAMBDA acc, x : QMin(acc, x), xs[1], xs)
    [] e.t = "sub" -> QSub(Ev3(e.a[1], k, env), Ev3(e.a[2], k, env))
    [] e.t = "div" -> QDiv(Ev3(e.a[1], k, env), Ev3(e.a[2], k, env))
    [] e.t = "neg" -> QNeg(Ev3(e.a[1], k, env))
    [] e.t = "abs" -> QAbs(Ev3(e.a[1], k, env))
    [] e.t = "sq" -> LET x == Ev3(e.a[1], k, env) IN QMul(x, x)
    [] e.t = "pow" -> QPow(Ev3(e.a[1], k, env), e.n)
    [] e.t = "pow2" -> QPow2(e.n)
    [] e.t = "poly" -> LET x == Ev3(e.x, k, env)  cs == EvSeq3(e.c, k, env)
                       IN FoldRight(LAMBDA c, acc : QAdd(QMul(acc, x), c), cs, QZero)
    [] e.t = "sumk" -> FoldLeft(LAMBDA acc, j : QAdd(acc, Ev3(e.body, j, env)), QZero, IRange(e.lo, e.hi))
    [] e.t = "prodk" -> FoldLeft(LAMBDA acc, j : QMul(acc, Ev3(e.body, j, env)), QOne, IRange(e.lo, e.hi))
    [] e.t = "hypterm" -> HypTerm(EvSeq3(e.as, k, env), EvSeq3(e.bs, k, env), Ev3(e.z, k, env), e.n)
    [] e.t = "ortho" -> Ortho(e.fam, e.n, Ev3(e.x, k, env), Ev3(e.par, k, env))
    [] e.t = "polyint" -> PolyInt(EvSeq3(e.c, k, env), Ev3(e.a[1], k, env), Ev3(e.a[2], k, env))
    [] e.t = "polyder" -> PolyDer(EvSeq3(e.c, k, env), Ev3(e.x, k, env), e.n)
    [] e.t = "fact" -> QInt(Fact(e.n))
    [] e.t = "fact2" -> QInt(Fact2(e.n))
    [] e.t = "fib" -> QInt(Fib(e.n))
    [] e.t = "bern" -> Bern(e.n)
    [] e.t = "euler" -> QInt(EulerNum(e.n))
    [] e.t = "bell" -> QInt(Bell(e.n))
    [] e.t = "primepi" -> QNat(PrimePi(e.n))
    [] e.t = "isprime" -> QNat(IF IsPrimeN(e.n) THEN 1 ELSE 0)
    [] e.t = "binom" -> QInt(Binom(e.n, e.k))
    [] e.t = "stir1" -> QInt(Stir1(e.n, e.k))
    [] e.t = "stir2" -> QInt(Stir2(e.n, e.k))

Ev(e, k) == Ev3(e, k, <<>>)
EvalDefs(defs) == FoldLeft(LAMBDA env, d : Append(env, Ev3(d, 0, env)), <<>>, defs)

RECURSIVE Holds2(_, _)
Holds2(j, env) ==
  CASE j.j = "le" -> QCmp(Ev3(j.a, 0, env), Ev3(j.b, 0, env)) <= 0
    [] j.j = "lt" -> QCmp(Ev3(j.a, 0, env), Ev3(j.b, 0, env)) < 0
    [] j.j = "eq" -> QCmp(Ev3(j.a, 0, env), Ev3(j.b, 0, env)) = 0
    [] j.j = "all" -> \A i \in 1..Len(j.js) : Holds2(j.js[i], env)
    [] j.j = "any" -> \E i \in 1..Len(j.js) : Holds2(j.js[i], env)
    [] j.j = "true" -> TRUE
    [] j.j = "false" -> FALSE
Holds(j) == Holds2(j, <<>>)
HoldsWith(j, defs) == Holds2(j, EvalDefs(defs))
\* an mpf value is the integer/rational V exactly when V fits in p bits, else within one ulp (C25)
ExactOrUlp(r, e, p) ==
  LET v == Ev(e, 0)  neg == QSign(v) < 0  N == ZAbs(v[1])  D == v[2]
  IN IF ZIsZero(N) THEN r = FZero
     ELSE /\ WithinUlpsQ2(r, neg, N, D, 0, p, 1)
          /\ (ZCmp(D, ZOne) = 0 /\ ZBitLen(N) - ZTrailing(N) <= p => r = Encode(Dy(v[1], 0)))
=============================================================================
