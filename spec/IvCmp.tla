--------------------------------- MODULE IvCmp ---------------------------------
(***************************************************************************)
(* C16: interval comparisons as sound (and complete) three-valued           *)
(* predicates.  Endpoints live on the even points 0,2,..,2(N-1) of a grid,   *)
(* with -2 and 2N standing for -inf and +inf; member points are ALL grid    *)
(* points (odd ones are interior points, -1 and 2N-1 are "finite but beyond  *)
(* every finite endpoint").  Because the implementation's predicates depend  *)
(* only on the order type of the four endpoints, enumerating every pair of   *)
(* intervals over this grid is complete for finite and infinite endpoints.   *)
(*   Sem*   the semantic definition with explicit quantifiers over members   *)
(*   Alg*   transcriptions of libmpi.mpi_lt/le/gt/ge/eq/ne and of            *)
(*          ivmpf.__contains__                                               *)
(* Invariant Agree: Alg = Sem for the pair chosen in the current state.      *)
(* The state graph (one state per pair) is replayed against the real iv      *)
(* context with every endpoint realised in several encodings (M2).           *)
(***************************************************************************)
EXTENDS Integers, FiniteSets, TLC
CONSTANT N
VARIABLES s, t, st
vars == <<s, t, st>>
NInf == -2
PInf == 2 * N
Ends == {2 * i : i \in 0..(N - 1)} \cup {NInf, PInf}
Ivs == {<<a, b>> \in Ends \X Ends : a <= b /\ ~(a = b /\ a \in {NInf, PInf})}
Members(iv) == {x \in (NInf + 1)..(PInf - 1) : iv[1] <= x /\ x <= iv[2]}

Init == s = <<0, 0>> /\ t = <<0, 0>> /\ st = 0
Next == \/ st = 0 /\ s' \in Ivs /\ t' = t /\ st' = 1
        \/ st = 1 /\ t' \in Ivs /\ s' = s /\ st' = 2

\* semantic three-valued relation: "T" if it holds for every pair of members, "F" if for none
Sem(R(_, _), u, v) ==
  IF \A x \in Members(u), y \in Members(v) : R(x, y) THEN "T"
  ELSE IF \A x \in Members(u), y \in Members(v) : ~R(x, y) THEN "F" ELSE "N"
SemLt(u, v) == Sem(LAMBDA x, y : x < y, u, v)
SemLe(u, v) == Sem(LAMBDA x, y : x <= y, u, v)
SemGt(u, v) == Sem(LAMBDA x, y : x > y, u, v)
SemGe(u, v) == Sem(LAMBDA x, y : x >= y, u, v)
SemIn(u, v) == Members(u) \subseteq Members(v)          \* u lies inside v
SemEq(u, v) == u = v

\* transcriptions
AlgLt(u, v) == IF u[2] < v[1] THEN "T" ELSE IF u[1] >= v[2] THEN "F" ELSE "N"
AlgLe(u, v) == IF u[2] <= v[1] THEN "T" ELSE IF u[1] > v[2] THEN "F" ELSE "N"
AlgGt(u, v) == AlgLt(v, u)
AlgGe(u, v) == AlgLe(v, u)
\* ivmpf.__contains__: (self.a <= t.a) and (t.b <= self.b) on point intervals
AlgIn(u, v) == AlgLe(<<v[1], v[1]>>, <<u[1], u[1]>>) = "T" /\ AlgLe(<<u[2], u[2]>>, <<v[2], v[2]>>) = "T"
AlgEq(u, v) == u = v

Agree ==
  st = 2 =>
    /\ AlgLt(s, t) = SemLt(s, t) /\ AlgLe(s, t) = SemLe(s, t)
    /\ AlgGt(s, t) = SemGt(s, t) /\ AlgGe(s, t) = SemGe(s, t)
    /\ AlgIn(s, t) = SemIn(s, t) /\ AlgEq(s, t) = SemEq(s, t)
\* M2: one line per pair with the spec's verdicts, replayed against the implementation
Emit == st = 2 => PrintT(<<"PAIR", s, t, SemLt(s, t), SemLe(s, t), SemGt(s, t), SemGe(s, t), SemIn(s, t), SemEq(s, t)>>)
=============================================================================
