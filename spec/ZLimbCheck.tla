----------------------------- MODULE ZLimbCheck -----------------------------
(***************************************************************************)
(* M1 refinement check of Layer 0: for every pair of integers in -N..N and *)
(* every shift 0..S, each ZLimb operator (run with 2-bit limbs, so carries, *)
(* borrows and multi-limb quotients occur for tiny values) agrees with the *)
(* native operator of ZNat.  Operands are chosen in staged Next steps.     *)
(***************************************************************************)
EXTENDS Integers, Sequences, TLC
CONSTANTS N, S
ZL == INSTANCE ZLimb WITH LB <- 2
ZN == INSTANCE ZNat
VARIABLES a, b, stage
vars == <<a, b, stage>>
Init == a = 0 /\ b = 0 /\ stage = 0
Next == \/ stage = 0 /\ a' \in -N..N /\ b' = b /\ stage' = 1
        \/ stage = 1 /\ b' \in -N..N /\ a' = a /\ stage' = 2
T(x) == ZL!ZFromInt(x)
F(x) == ZL!ZToInt(x)
Agree ==
  stage = 2 =>
  LET x == T(a)  y == T(b) IN
  /\ ZL!IsZ(x) /\ ZL!IsZ(y) /\ F(x) = a
  /\ ZL!IsZ(ZL!ZAdd(x, y)) /\ F(ZL!ZAdd(x, y)) = a + b
  /\ ZL!IsZ(ZL!ZSub(x, y)) /\ F(ZL!ZSub(x, y)) = a - b
  /\ ZL!IsZ(ZL!ZMul(x, y)) /\ F(ZL!ZMul(x, y)) = a * b
  /\ ZL!ZCmp(x, y) = ZN!ZCmp(a, b)
  /\ ZL!ZSign(x) = ZN!ZSign(a)
  /\ ZL!ZBitLen(x) = ZN!ZBitLen(a)
  /\ (a # 0 => ZL!ZTrailing(x) = ZN!ZTrailing(a))
  /\ ZL!ZIsOdd(x) = ZN!ZIsOdd(a)
  /\ F(ZL!ZNeg(x)) = -a /\ F(ZL!ZAbs(x)) = ZN!ZAbs(a)
  /\ (b # 0 => /\ ZL!IsZ(ZL!ZDivFloor(x, y))
               /\ F(ZL!ZDivFloor(x, y)) = ZN!ZDivFloor(a, b)
               /\ F(ZL!ZMod(x, y)) = ZN!ZMod(a, b))
  /\ (b \in 0..15 => F(ZL!ZMulSmall(x, b)) = a * b)
  /\ \A k \in 0..S :
       /\ ZL!IsZ(ZL!ZShl(x, k)) /\ F(ZL!ZShl(x, k)) = ZN!ZShl(a, k)
       /\ ZL!IsZ(ZL!ZShr(x, k)) /\ F(ZL!ZShr(x, k)) = ZN!ZShr(a, k)
       /\ ZL!ZLowZero(x, k) = ZN!ZLowZero(a, k)
       /\ ZL!ZBit(x, k) = ZN!ZBit(a, k)
  /\ (b \in 0..4 /\ a \in -30..30 => F(ZL!ZPow(x, b)) = ZN!ZPow(a, b))
=============================================================================
