--------------------------- MODULE RoundingLemmas ---------------------------
(***************************************************************************)
(* M1 lemmas tying the forms of the rounding oracle together on a whole    *)
(* small universe (native integers):                                       *)
(*   L1  RoundQ(q) is accepted by the checker form IsRoundQ                 *)
(*   L2  the checker form accepts no other p-bit value (uniqueness; the    *)
(*       only exception is a tie at p = 1, where both neighbours pass)      *)
(*   L3  RoundDy(d) = RoundQ(d) for dyadics                                 *)
(*   L4  RoundSum(a, b) = RoundDy(a + b) for every exponent gap            *)
(*   L5  IsRoundSqrt accepts exactly the grid point chosen by order-only    *)
(*       reasoning on squares                                              *)
(* Operands are chosen in staged steps so all workers share the universe.  *)
(***************************************************************************)
EXTENDS ZNat, TLC
INSTANCE Exact
CONSTANTS NMAX, DMAX, PMAX, EMAX
VARIABLES n, d, st
vars == <<n, d, st>>
Init == n = 0 /\ d = 1 /\ st = 0
Next == \/ st = 0 /\ n' \in 1..NMAX /\ d' = d /\ st' = 1
        \/ st = 1 /\ d' \in 1..DMAX /\ n' = n /\ st' = 2
\* all canonical values with at most p bits near the magnitude of interest
Grid(p, elo, ehi) == {Mpf(s, m, e, ZBitLen(m)) : s \in {0, 1}, m \in {x \in 1..(Pow2(p) - 1) : x % 2 = 1}, e \in elo..ehi}
L1L2 ==
  st = 2 => \A p \in 1..PMAX : \A rnd \in Modes : \A neg \in BOOLEAN :
    LET r == RoundQ(neg, n, d, p, rnd)
        k == Ilog2Q(n, d)
    IN /\ Canonical(r) /\ r.bc <= p
       /\ IsRoundQ(r, neg, n, d, p, rnd)
       /\ \A g \in Grid(p, k - p - 1, k + 1) :
            (g # r /\ IsRoundQ(g, neg, n, d, p, rnd)) => (p = 1 /\ rnd = "n")
L3 ==
  st = 2 => \A p \in 1..PMAX : \A rnd \in Modes : \A e \in -EMAX..EMAX :
    LET dy == Dy(n, e)  dn == Dy(-n, e)
    IN /\ RoundDy(dy, p, rnd) = FScale(RoundQ(FALSE, n, 1, p, rnd), e)
       /\ RoundDy(dn, p, rnd) = FScale(RoundQ(TRUE, n, 1, p, rnd), e)
       /\ IsRoundDy(RoundDy(dy, p, rnd), dy, p, rnd)
L4 ==
  st = 2 /\ d <= NMAX => \A p \in 1..PMAX : \A rnd \in Modes : \A e \in 0..(3 * EMAX) : \A sa, sb \in {-1, 1} :
    LET a == Dy(sa * n, e)  b == Dy(sb * d, 0)
    IN RoundSum(a, b, p, rnd) = RoundDy(DyAdd(a, b), p, rnd)
\* order-only characterisation of the rounded square root of x = n * 2^e (x > 0)
SqLe(g, x) == DyCmp(DyMul(Val(g), Val(g)), x) <= 0          \* g^2 <= x   (g > 0)
L5 ==
  st = 2 /\ d <= 3 => \A p \in 1..PMAX : \A rnd \in Modes :
    LET e == d - 2
        x == Dy(n, e)
        top == DyTop(x)
        G == {g \in Grid(p, (top \div 2) - p - 2, (top \div 2) + 2) : g.s = 0}
        below == {g \in G : SqLe(g, x)}
        above == {g \in G : ~SqLe(g, x) \/ DyEq(DyMul(Val(g), Val(g)), x)}
        lo == CHOOSE g \in below : \A h \in below : DyCmp(Val(h), Val(g)) <= 0
        hi == CHOOSE g \in above : \A h \in above : DyCmp(Val(g), Val(h)) <= 0
        exact == lo = hi
        \* 2 sqrt(x) vs lo + hi  <=>  4x vs (lo+hi)^2
        mid == DyAdd(Val(lo), Val(hi))
        c == DyCmp(DyShift(x, 2), DyMul(mid, mid))
        loEven == lo.bc < p \/ (lo.bc = p /\ FALSE)
        want == IF exact THEN {lo}
                ELSE IF rnd \in {"f", "d"} THEN {lo}
                ELSE IF rnd \in {"c", "u"} THEN {hi}
                ELSE IF c < 0 THEN {lo} ELSE IF c > 0 THEN {hi}
                ELSE IF p = 1 THEN {lo, hi}
                ELSE {g \in {lo, hi} : g.bc < p}
    IN \A g \in G : IsRoundSqrt(g, x, p, rnd) <=> g \in want
=============================================================================
