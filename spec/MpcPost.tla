------------------------------- MODULE MpcPost -------------------------------
(***************************************************************************)
(* Layer 3: postconditions of complex arithmetic (C04).  A complex value is *)
(* a pair <<re, im>> of mpf records.  Sums and products are correctly       *)
(* rounded per component (the exact components are dyadics); quotients,     *)
(* reciprocals and negative powers are judged by the exact inequality       *)
(*   |r*w - z|^2 <= (K * 2^-p)^2 * |z|^2          (no division, no roots)   *)
(***************************************************************************)
EXTENDS Integers, Sequences, SequencesExt
CONSTANTS ZZero, ZOne, ZFromInt(_), ZToInt(_), ZSign(_), ZIsZero(_), ZNeg(_), ZAbs(_),
          ZAdd(_, _), ZSub(_, _), ZMul(_, _), ZMulSmall(_, _), ZCmp(_, _),
          ZShl(_, _), ZShr(_, _), ZBitLen(_), ZTrailing(_), ZIsOdd(_),
          ZLowZero(_, _), ZBit(_, _), ZPow(_, _), ZPow2(_), ZDivFloor(_, _), ZMod(_, _)
INSTANCE MpfPost

DV(x) == IF x = FZero THEN DyZero ELSE Val(x)             \* finite mpf (incl. zero) as a dyadic
CFinite(z) == IsFinite(z[1]) /\ IsFinite(z[2])
\* rounding of the exact sum of two dyadics (either may be zero) whatever the exponent gap
RoundSum0(a, b, p, rnd) ==
  IF DyIsZero(a) THEN RoundDy(b, p, rnd)
  ELSE IF DyIsZero(b) THEN RoundDy(a, p, rnd)
  ELSE RoundSum(a, b, p, rnd)

PostCAdd(z, w, p, rnd, o) ==
  /\ o.k = "c" /\ o.re = AddExpected(z[1], w[1], p, rnd) /\ o.im = AddExpected(z[2], w[2], p, rnd)
PostCSub(z, w, p, rnd, o) ==
  /\ o.k = "c" /\ o.re = AddExpected(z[1], FNeg(w[1]), p, rnd) /\ o.im = AddExpected(z[2], FNeg(w[2]), p, rnd)
\* z * w for finite z, w
PostCMul(z, w, p, rnd, o) ==
  LET a == DV(z[1])  b == DV(z[2])  c == DV(w[1])  d == DV(w[2])
  IN /\ o.k = "c"
     /\ o.re = RoundSum0(DyMul(a, c), DyNeg(DyMul(b, d)), p, rnd)
     /\ o.im = RoundSum0(DyMul(a, d), DyMul(b, c), p, rnd)

\* exact Gaussian power by repeated multiplication (n >= 0), components as dyadics
CMulDy(u, v) == <<DySub(DyMul(u[1], v[1]), DyMul(u[2], v[2])), DyAdd(DyMul(u[1], v[2]), DyMul(u[2], v[1]))>>
RECURSIVE CPowDy(_, _)
CPowDy(u, n) == IF n = 0 THEN <<Dy(ZOne, 0), DyZero>>
                ELSE IF n % 2 = 0 THEN LET h == CPowDy(u, n \div 2) IN CMulDy(h, h)
                ELSE CMulDy(u, CPowDy(u, n - 1))
PostCPowIntExact(z, n, p, rnd, o) ==
  LET e == CPowDy(<<DV(z[1]), DV(z[2])>>, n)
  IN /\ o.k = "c" /\ o.re = RoundDy(e[1], p, rnd) /\ o.im = RoundDy(e[2], p, rnd)

\* |r*w - z|^2 <= (K*2^-p)^2 |z|^2   for the result r of z / w
K == 8
DyNorm2(u) == DyAdd(DyMul(u[1], u[1]), DyMul(u[2], u[2]))
QuotientOK(r, z, w, p) ==
  LET rw == CMulDy(r, w)
      diff == <<DySub(rw[1], z[1]), DySub(rw[2], z[2])>>
  IN DyCmp(DyNorm2(diff), DyShift(DyMul(Dy(ZFromInt(K * K), 0), DyNorm2(z)), -2 * p)) <= 0
PostCDiv(z, w, p, rnd, o) ==
  IF w[1] = FZero /\ w[2] = FZero THEN o.k = "x"
  ELSE /\ o.k = "c" /\ IsFinite(o.re) /\ IsFinite(o.im)
       /\ QuotientOK(<<DV(o.re), DV(o.im)>>, <<DV(z[1]), DV(z[2])>>, <<DV(w[1]), DV(w[2])>>, p)
\* z^(-n): r * z^n = 1 within tolerance
PostCPowNeg(z, n, p, rnd, o) ==
  /\ o.k = "c" /\ IsFinite(o.re) /\ IsFinite(o.im)
  /\ QuotientOK(<<DV(o.re), DV(o.im)>>, <<Dy(ZOne, 0), DyZero>>, CPowDy(<<DV(z[1]), DV(z[2])>>, n), p)
\* equality of a complex value with another complex value is exact and componentwise
PostCEq(z, w, o) == o.k = "b" /\ o.v = (z[1] # FNan /\ z[2] # FNan /\ w[1] # FNan /\ w[2] # FNan
                                        /\ FCmp(z[1], w[1]) = 0 /\ FCmp(z[2], w[2]) = 0)
=============================================================================
