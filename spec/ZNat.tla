-------------------------------- MODULE ZNat --------------------------------
(***************************************************************************)
(* Layer 0: the integer signature "ZSig" realised on TLC's native integers *)
(* (used by the exhaustive small-universe models; the universes are sized  *)
(* so that nothing approaches 2^31).                                       *)
(***************************************************************************)
EXTENDS Integers

RECURSIVE Pow2(_)
Pow2(k) == IF k = 0 THEN 1 ELSE 2 * Pow2(k - 1)
Max2(x, y) == IF x >= y THEN x ELSE y
Min2(x, y) == IF x <= y THEN x ELSE y

ZZero == 0
ZOne == 1
ZFromInt(n) == n
ZToInt(x) == x
ZSign(x) == IF x = 0 THEN 0 ELSE IF x > 0 THEN 1 ELSE -1
ZIsZero(x) == x = 0
ZNeg(x) == -x
ZAbs(x) == IF x < 0 THEN -x ELSE x
ZAdd(x, y) == x + y
ZSub(x, y) == x - y
ZMul(x, y) == x * y
ZMulSmall(x, c) == x * c
ZCmp(x, y) == IF x < y THEN -1 ELSE IF x = y THEN 0 ELSE 1
ZShl(x, k) == x * Pow2(k)
ZShr(x, k) == IF k >= 31 THEN (IF x >= 0 THEN 0 ELSE -1) ELSE x \div Pow2(k)
RECURSIVE BitLenNat(_)
BitLenNat(x) == IF x = 0 THEN 0 ELSE 1 + BitLenNat(x \div 2)
ZBitLen(x) == BitLenNat(ZAbs(x))
RECURSIVE TrailNat(_)
TrailNat(x) == IF x % 2 = 1 THEN 0 ELSE 1 + TrailNat(x \div 2)
ZTrailing(x) == TrailNat(ZAbs(x))
ZIsOdd(x) == ZAbs(x) % 2 = 1
ZLowZero(x, k) == IF k >= 31 THEN x = 0 ELSE ZAbs(x) % Pow2(k) = 0
ZBit(x, k) == IF k >= 31 THEN 0 ELSE (ZAbs(x) \div Pow2(k)) % 2
RECURSIVE ZPow(_, _)
ZPow(x, n) == IF n = 0 THEN 1 ELSE x * ZPow(x, n - 1)
ZPow2(k) == Pow2(k)
ZDivFloor(x, y) == IF y > 0 THEN x \div y ELSE (-x) \div (-y)
ZMod(x, y) == x - y * ZDivFloor(x, y)
=============================================================================
