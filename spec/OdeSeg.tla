-------------------------------- MODULE OdeSeg --------------------------------
(***************************************************************************)
(* Layer 4: the segment table of an odefun interpolant (C34, C33).          *)
(* Positions are integers; the Taylor segment starting at boundary b ends   *)
(* at b + L (the real step is chosen by ode_taylor; only its determinism    *)
(* matters here).  Query(x) transcribes get_series: ValueError below x0,    *)
(* bisect_right over the known boundaries, and the extension loop that      *)
(* appends segments until x <= the last boundary.  Abort models an          *)
(* exception inside ode_taylor during the extension: nothing is appended.   *)
(*   OrderFree  the segment that answers x is a function of x alone         *)
(*              (whatever queries came before)                              *)
(* With BoundaryQueries = TRUE the model admits queries exactly at segment  *)
(* boundaries, where the transcription answers from the segment ENDING at x *)
(* on the query that creates the boundary and from the one STARTING at x    *)
(* afterwards: TLC exhibits that history (cfg/OdeSeg_boundary.cfg expects   *)
(* the counterexample); with interior points only, OrderFree holds.         *)
(***************************************************************************)
EXTENDS Integers, Sequences, FiniteSets, TLC, Json
CONSTANTS X0, XMAX, L, BoundaryQueries, Depth
VARIABLES bounds, used, hist, ok
vars == <<bounds, used, hist, ok>>
Init == bounds = <<X0, X0 + L>> /\ used = [x \in {} |-> 0] /\ hist = <<>> /\ ok = TRUE
Last(s) == s[Len(s)]
\* bisect_right(bounds, x): number of boundaries <= x
BisectRight(s, x) == Cardinality({i \in 1..Len(s) : s[i] <= x})
RECURSIVE Extend(_, _)
Extend(s, x) == IF x <= Last(s) THEN s ELSE Extend(Append(s, Last(s) + L), x)
Points == {x \in (X0 - 1)..XMAX : BoundaryQueries \/ x < X0 \/ (x - X0) % L # 0}
Query(x) ==
  IF x < X0
  THEN /\ hist' = Append(hist, [a |-> "Query", x |-> x, raises |-> TRUE, nseg |-> Len(bounds) - 1])
       /\ UNCHANGED <<bounds, used, ok>>
  ELSE LET n == BisectRight(bounds, x)
           b2 == IF n < Len(bounds) THEN bounds ELSE Extend(Append(bounds, Last(bounds) + L), x)
           seg == IF n < Len(bounds) THEN bounds[n] ELSE b2[Len(b2) - 1]      \* start of the answering segment
       IN /\ bounds' = b2
          /\ ok' = (ok /\ (x \in DOMAIN used => used[x] = seg))
          /\ used' = [y \in DOMAIN used \cup {x} |-> IF y = x /\ x \notin DOMAIN used THEN seg ELSE IF y = x THEN used[x] ELSE used[y]]
          /\ hist' = Append(hist, [a |-> "Query", x |-> x, raises |-> FALSE, seg |-> seg, nseg |-> Len(b2) - 1])
Abort(x) == /\ x >= X0 /\ BisectRight(bounds, x) >= Len(bounds)
            /\ hist' = Append(hist, [a |-> "Abort", x |-> x, nseg |-> Len(bounds) - 1])
            /\ UNCHANGED <<bounds, used, ok>>
Next == /\ Len(hist) < Depth
        /\ \E x \in Points : Query(x) \/ Abort(x)
Spec == Init /\ [][Next]_vars
OrderFree == ok
Emit == Len(hist) = Depth => PrintT(<<"HIST", ToJson([h |-> hist])>>)
=============================================================================
