------------------------------ MODULE TraceJudge ------------------------------
(***************************************************************************)
(* M3: code -> spec trace validation.  The harness records one ndjson event *)
(* per call of the real implementation (operation, fully logged arguments,  *)
(* precision, rounding mode, raw outcome tuple).  This specification        *)
(* consumes the events one by one and evaluates, in exact arithmetic on     *)
(* limb integers, every clause that applies to the event:                   *)
(*    "post"   the operation's postcondition from MpfPost/MpcPost/...       *)
(*    "canon"  every real component of the outcome is canonical   (C01)     *)
(*    "bits"   every real component has at most ev.pb mantissa bits (C10)   *)
(* Verdicts are total: a failing event does not block the trace; its id and *)
(* the failing clauses are printed and the remaining events are still       *)
(* judged.  Acceptance (all lines consumed) is a POSTCONDITION.             *)
(***************************************************************************)
EXTENDS ZLimb, Json, IOUtils, TLC
INSTANCE Judge

Trace == ndJsonDeserialize(IOEnv.TRACE_FILE)
VARIABLE l
Init == l = 1
Report(ev) == LET c == Clauses(ev) IN IF c = {} THEN TRUE ELSE PrintT(<<"BAD", ev.id, c>>)
Next == /\ l <= Len(Trace)
        /\ Report(Trace[l])
        /\ l' = l + 1
Spec == Init /\ [][Next]_l
Consumed == TLCGet("stats").diameter - 1 = Len(Trace)
=============================================================================
