------------------------------ MODULE PrecState ------------------------------
(***************************************************************************)
(* The (prec, dps) pair of every context and the two setter actions, shared *)
(* by the design model PrecCtx and the trace specification TracePrecCtx.    *)
(* Conversion formulas: prec_to_dps(n) = max(1, round(n / log2(10)) - 1),   *)
(* dps_to_prec(n) = max(1, round((n+1) * log2(10))), written with the       *)
(* convergent 28738/8651 of log2(10) (the harness verifies agreement with   *)
(* libmp on the whole modelled range before any trace is judged).           *)
(***************************************************************************)
EXTENDS Integers
VARIABLES prec, dps
Max(a, b) == IF a >= b THEN a ELSE b
\* round(x) for a positive rational num/den (ties do not occur for these arguments)
RoundDiv(num, den) == (2 * num + den) \div (2 * den)
P2D(n) == Max(1, RoundDiv(n * 8651, 28738) - 1)            \* prec_to_dps
D2P(n) == Max(1, RoundDiv((n + 1) * 28738, 8651))          \* dps_to_prec
\* the two setters, as functions on the pair of maps
SetPrecF(pm, dm, c, n) == <<[pm EXCEPT ![c] = Max(1, n)], [dm EXCEPT ![c] = P2D(Max(1, n))]>>
SetDpsF(pm, dm, c, n)  == <<[pm EXCEPT ![c] = D2P(Max(1, n))], [dm EXCEPT ![c] = Max(1, n)]>>
\* ... and as actions
SetPrec(c, n) == LET s == SetPrecF(prec, dps, c, n) IN prec' = s[1] /\ dps' = s[2]
SetDps(c, n)  == LET s == SetDpsF(prec, dps, c, n)  IN prec' = s[1] /\ dps' = s[2]
=============================================================================
