------------------------------- MODULE PrecCtx -------------------------------
(***************************************************************************)
(* Layer 4: the working-precision state machine (C11, C38).                 *)
(*                                                                         *)
(* State: for every context c its (prec, dps) pair, and a stack of open     *)
(* call frames.  Setting one of prec/dps updates the other by the           *)
(* documented conversion formulas (written with the convergent 28738/8651   *)
(* of log2(10); the harness checks at start-up that these agree with        *)
(* libmp.prec_to_dps / dps_to_prec on the modelled range).                  *)
(*                                                                         *)
(* The design model contains the save/restore idioms found in the code as   *)
(* step-by-step programs:                                                  *)
(*   "A"  try: prec := f(prec) ... finally: prec := saved      (wrappers)   *)
(*   "M"  PrecisionManager __enter__/__exit__ (workprec/workdps/extra..)    *)
(*   "B"  saved := dps ... dps := saved            (restores via dps)       *)
(*   "C"  saved := prec ... prec := saved, no finally                       *)
(* An Inject action raises between any two steps; Unwind pops frames the    *)
(* way Python does (finally blocks run, plain code does not).  Restored     *)
(* says every frame leaves (prec, dps) of every context as it found them.   *)
(* TLC proves it for idioms A and M from every start precision, and finds   *)
(* the counterexamples for B and C (cfg/PrecCtx_unsound*.cfg expect them).  *)
(***************************************************************************)
EXTENDS PrecState, Sequences, FiniteSets, TLC

CONSTANTS Ctx,          \* set of context names
          PMAX,         \* start precisions 1..PMAX
          Idioms,       \* subset of {"A", "M", "B", "C"} enabled in this configuration
          MaxDepth, MaxFaults,
          PrecArgs, DpsArgs, Deltas     \* arguments of workprec / workdps / extraprec,extradps

VARIABLES stack, exc, faults, bad
vars == <<prec, dps, stack, exc, faults, bad>>

DeltasQuick == {-5, 10}             \* cfg files cannot write negative numbers
DeltasThorough == {-5, 10, 64}
Consistent == \A c \in Ctx : dps[c] = P2D(prec[c])
\* SetterAlgebra: dps -> prec -> dps is the identity, so restoring prec restores dps
SetterAlgebra == \A n \in 1..PMAX : P2D(D2P(n)) = n

Frame(idiom, c, kind, arg) ==
  [idiom |-> idiom, c |-> c, kind |-> kind, arg |-> arg, pc |-> 1, saved |-> 0,
   snapP |-> prec, snapD |-> dps]
Top == stack[Len(stack)]
Pop == SubSeq(stack, 1, Len(stack) - 1)
WithTop(f) == [stack EXCEPT ![Len(stack)] = f]
RestoredAt(f) == prec = f.snapP /\ dps = f.snapD

Init == /\ prec \in [Ctx -> 1..PMAX]
        /\ dps = [c \in Ctx |-> P2D(prec[c])]
        /\ stack = <<>> /\ exc = FALSE /\ faults = 0 /\ bad = FALSE

\* a public call / manager is entered
Push == /\ ~exc /\ Len(stack) < MaxDepth
        /\ (IF stack = <<>> THEN TRUE ELSE Top.pc = 3)                   \* nested calls happen in a body
        /\ \E id \in Idioms, c \in Ctx, kind \in {"prec", "dps", "xprec", "xdps"} :
             \E arg \in (CASE kind = "prec" -> PrecArgs [] kind = "dps" -> DpsArgs [] OTHER -> Deltas) :
               stack' = Append(stack, Frame(id, c, kind, arg))
        /\ UNCHANGED <<prec, dps, exc, faults, bad>>

NewSetting(f) ==        \* the precision change the frame makes on entry: <<prec', dps'>>
  CASE f.kind = "prec"  -> SetPrecF(prec, dps, f.c, f.arg)
    [] f.kind = "dps"   -> SetDpsF(prec, dps, f.c, f.arg)
    [] f.kind = "xprec" -> SetPrecF(prec, dps, f.c, prec[f.c] + f.arg)
    [] f.kind = "xdps"  -> SetDpsF(prec, dps, f.c, dps[f.c] + f.arg)

\* one step of the frame on top of the stack (no exception in flight)
\*   pc 1: save   pc 2: change precision   pc 3: body (nested Push possible)   pc 4: restore + return
Step ==
  /\ ~exc /\ stack # <<>>
  /\ LET f == Top IN
     CASE f.pc = 1 ->
            /\ stack' = WithTop([f EXCEPT !.pc = 2, !.saved = IF f.idiom = "B" THEN dps[f.c] ELSE prec[f.c]])
            /\ UNCHANGED <<prec, dps, bad>>
       [] f.pc = 2 ->
            /\ LET s == NewSetting(f) IN prec' = s[1] /\ dps' = s[2]
            /\ stack' = WithTop([f EXCEPT !.pc = 3])
            /\ UNCHANGED bad
       [] f.pc = 3 ->
            /\ stack' = WithTop([f EXCEPT !.pc = 4])
            /\ UNCHANGED <<prec, dps, bad>>
       [] f.pc = 4 ->
            /\ LET s == IF f.idiom = "B" THEN SetDpsF(prec, dps, f.c, f.saved)
                        ELSE SetPrecF(prec, dps, f.c, f.saved)
               IN /\ prec' = s[1] /\ dps' = s[2]
                  /\ bad' = (bad \/ ~(s[1] = f.snapP /\ s[2] = f.snapD))
            /\ stack' = Pop
  /\ UNCHANGED <<exc, faults>>

\* an exception is raised at the current point of the innermost frame
Inject == /\ ~exc /\ stack # <<>> /\ faults < MaxFaults
          /\ exc' = TRUE /\ faults' = faults + 1
          /\ UNCHANGED <<prec, dps, stack, bad>>

\* the exception leaves the innermost frame: idioms A and M restore (finally / __exit__) if
\* they were past their save point; B and C do not
Unwind ==
  /\ exc /\ stack # <<>>
  /\ LET f == Top
         restores == f.idiom \in {"A", "M"} /\ f.pc >= 2
         s == IF restores THEN SetPrecF(prec, dps, f.c, f.saved) ELSE <<prec, dps>>
     IN /\ prec' = s[1] /\ dps' = s[2]
        /\ bad' = (bad \/ ~(s[1] = f.snapP /\ s[2] = f.snapD))
        /\ stack' = Pop
  /\ UNCHANGED <<exc, faults>>

\* the caller catches the exception
Catch == /\ exc /\ stack = <<>> /\ exc' = FALSE
         /\ UNCHANGED <<prec, dps, stack, faults, bad>>

Next == Push \/ Step \/ Inject \/ Unwind \/ Catch
Spec == Init /\ [][Next]_vars

Restored == ~bad
\* C38: a step of a frame working on context c never changes another context
Isolation == [][\A c \in Ctx : (stack # <<>> /\ c # Top.c) => (prec'[c] = prec[c] /\ dps'[c] = dps[c])]_vars
TypeOK == /\ \A c \in Ctx : prec[c] >= 1 /\ dps[c] >= 1
          /\ Len(stack) <= MaxDepth
=============================================================================
