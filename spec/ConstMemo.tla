------------------------------ MODULE ConstMemo ------------------------------
(***************************************************************************)
(* Layer 4: the memo of a mathematical constant (C17, C33).                 *)
(* Transcribes constant_memo + def_mpf_constant: a request at precision p   *)
(* and mode rnd uses wp = p + G working bits; the memo answers if it holds  *)
(* at least wp bits (shifting its value down), otherwise the fixed-point    *)
(* routine is run at NewPrec(wp) bits and stored; ceiling modes add one     *)
(* unit before the final rounding.                                          *)
(* The true constant is an ARBITRARY real in [1,4): C / 2^NB for a          *)
(* nondeterministically chosen NB-bit string C, and the fixed-point routine *)
(* is assumed to return the true floor (FixedErr = 0).  TLC then shows, for *)
(* every constant and every request history:                                *)
(*   HistoryFree  the answer equals the answer from an empty memo           *)
(*   SideHolds    floor/down answers are <= C, ceiling/up answers are >= C  *)
(*   Within1Ulp   every answer is within one unit in the last place         *)
(*   AbortSafe    an exception inside the fixed-point routine leaves the memo   *)
(*                exactly as it was                                           *)
(*   Correct      the answer is the correctly rounded constant unless C     *)
(*                lies within 2^-wp of a rounding boundary (Ambiguous)      *)
(* With FixedErr = 1 (a routine that may return floor - 1) HistoryFree is   *)
(* refuted: the design relies on true floors (cfg/ConstMemo_floorerr.cfg).  *)
(***************************************************************************)
EXTENDS ZNat, Sequences, TLC
INSTANCE Exact
CONSTANTS NB,        \* fractional bits of the modelled constant
          G,         \* guard bits (20 in the code)
          SL,        \* additive slack of NewPrec (10 in the code)
          PMAX,      \* request precisions 1..PMAX
          HL,        \* history length
          FixedErr   \* 0: the fixed-point routine returns the true floor; 1: it may be one less
VARIABLES C, memoPrec, memoVal, n, last
vars == <<C, memoPrec, memoVal, n, last>>

NewPrec(wp) == (wp * 105) \div 100 + SL
TrueFloor(P) == C \div Pow2(NB - P)                 \* floor(C_real * 2^P), P <= NB
\* the answer given a memo state (mp, mv) -- def_mpf_constant after constant_memo
Answer(mp, mv, p, rnd) ==
  LET wp == p + G
      v0 == mv \div Pow2(mp - wp)
      v == IF rnd \in {"u", "c"} THEN v0 + 1 ELSE v0
  IN RoundDy(Dy(v, -wp), p, rnd)
Exactly(p, rnd) == RoundQ(FALSE, C, Pow2(NB), p, rnd)      \* correctly rounded true constant
\* C_real is within 2^-wp (absolute) of a boundary between rounding cells of precision p
Ambiguous(p, rnd) ==
  LET wp == p + G
      lo == TrueFloor(wp)
  IN \E rr \in {"n", "f", "c"} :
        RoundDy(Dy(lo, -wp), p, rr) # RoundDy(Dy(lo + 1, -wp), p, rr)
     \/ (C % Pow2(NB - wp) = 0)

Init == /\ C = 0 /\ memoPrec = -1 /\ memoVal = 0 /\ n = -1 /\ last = [k |-> "none"]
Choose == /\ n = -1 /\ C' \in Pow2(NB)..(4 * Pow2(NB) - 1) /\ n' = 0
          /\ UNCHANGED <<memoPrec, memoVal, last>>
Request(p, rnd) ==
  /\ n >= 0 /\ n < HL
  /\ LET wp == p + G
         hit == wp <= memoPrec
         np == NewPrec(wp)
     IN \E err \in 0..FixedErr :
          LET fv == TrueFloor(np) - err
              mp2 == IF hit THEN memoPrec ELSE np
              mv2 == IF hit THEN memoVal ELSE fv
          IN /\ memoPrec' = mp2 /\ memoVal' = mv2
             /\ last' = [k |-> "req", p |-> p, rnd |-> rnd, hit |-> hit,
                         ans |-> Answer(mp2, mv2, p, rnd),
                         scratch |-> Answer(np, TrueFloor(np), p, rnd)]
  /\ n' = n + 1 /\ C' = C
\* an exception escapes from the fixed-point routine of a miss: neither memo field is assigned
\* (the code assigns memo_val from the routine's result first and memo_prec afterwards)
AbortRequest(p) ==
  /\ n >= 0 /\ n < HL /\ p + G > memoPrec
  /\ last' = [k |-> "abort", p |-> p, before |-> <<memoPrec, memoVal>>]
  /\ n' = n + 1 /\ UNCHANGED <<C, memoPrec, memoVal>>
Next == Choose \/ \E p \in 1..PMAX : AbortRequest(p) \/ \E rnd \in Modes : Request(p, rnd)
Spec == Init /\ [][Next]_vars

Req == last.k = "req"
HistoryFree == Req => last.ans = last.scratch
SideHolds == Req =>
  LET c == DyCmp(Val(last.ans), Dy(C, -NB))
  IN /\ (last.rnd \in {"f", "d"} => c <= 0)
     /\ (last.rnd \in {"c", "u"} => c >= 0)
Within1Ulp == Req => WithinUlpsQ2(last.ans, FALSE, C, Pow2(NB), 0, last.p, 1)
Correct == Req /\ last.rnd \in {"n", "f", "d"} /\ ~Ambiguous(last.p, last.rnd) => last.ans = Exactly(last.p, last.rnd)
AbortSafe == last.k = "abort" => <<memoPrec, memoVal>> = last.before
MemoIsFloor == memoPrec >= 0 /\ FixedErr = 0 => memoVal = TrueFloor(memoPrec)
=============================================================================
