---------------------------- MODULE TracePrecCtx ----------------------------
(***************************************************************************)
(* M3 for C11 / C38: a recorded run of the real library -- every write to   *)
(* a context's prec/dps (logging property setters), bracketed by enter /    *)
(* return / raise events of public calls -- must be a behaviour of          *)
(* PrecState, and every frame must leave every context as it found it.      *)
(* Clauses (total verdicts, printed as <<"BAD", id, {clauses}>>):           *)
(*   setter    the logged (prec, dps) after a set differs from SetPrec/SetDps *)
(*   sync      the logged state at enter/exit differs from the state the     *)
(*             spec derived from the setter events (a write bypassed them)   *)
(*   restored  a call returned or raised with some context's (prec, dps)     *)
(*             different from what it was on entry                     (C11) *)
(*   isolation an action on context c changed a setting of another one  (C38) *)
(*   clone     a cloned context returned a different value than mp       (C38) *)
(* After a mismatch the spec adopts the logged state so that the rest of    *)
(* the trace is still judged.                                               *)
(***************************************************************************)
EXTENDS PrecState, Sequences, Json, IOUtils, TLC
Trace == ndJsonDeserialize(IOEnv.TRACE_FILE)
VARIABLES oth, stack, l             \* oth[c] = <<pretty, trap_complex>> of context c
vars == <<prec, dps, oth, stack, l>>
FMAX == 36000                      \* range on which the conversion formulas were validated
Names(st) == DOMAIN st
PMap(st) == [c \in DOMAIN st |-> st[c][1]]
DMap(st) == [c \in DOMAIN st |-> st[c][2]]
OMap(st) == [c \in DOMAIN st |-> <<st[c][3], st[c][4]>>]
Differs(st) == PMap(st) # prec \/ DMap(st) # dps \/ OMap(st) # oth
Adopt(st) == prec' = PMap(st) /\ dps' = DMap(st) /\ oth' = OMap(st)
Say(id, cl) == IF cl = {} THEN TRUE ELSE PrintT(<<"BAD", id, cl>>)

Init == l = 1 /\ prec = <<>> /\ dps = <<>> /\ oth = <<>> /\ stack = <<>>

TraceInit(e) == Adopt(e.st) /\ stack' = stack

TraceSet(e) ==
  LET s == IF e.ev = "set_prec" THEN SetPrecF(prec, dps, e.c, e.n) ELSE SetDpsF(prec, dps, e.c, e.n)
      logged == <<[prec EXCEPT ![e.c] = e.st[1]], [dps EXCEPT ![e.c] = e.st[2]]>>
      judged == e.n >= 0 /\ e.n <= FMAX
  IN /\ Say(e.id, IF judged /\ s # logged THEN {"setter"} ELSE {})
     /\ prec' = logged[1] /\ dps' = logged[2] /\ oth' = oth /\ stack' = stack

TraceEnter(e) ==
  /\ Say(e.id, IF Differs(e.st) THEN {"sync"} ELSE {})
  /\ Adopt(e.st)
  /\ stack' = Append(stack, [f |-> e.f, p |-> PMap(e.st), d |-> DMap(e.st), o |-> OMap(e.st)])

TraceExit(e) ==
  LET fr == stack[Len(stack)]
      changed == {c \in DOMAIN e.st : PMap(e.st)[c] # fr.p[c] \/ DMap(e.st)[c] # fr.d[c]}
      flags == {c \in DOMAIN e.st : OMap(e.st)[c] # fr.o[c]}
  IN /\ Say(e.id, (IF Differs(e.st) THEN {"sync"} ELSE {})
                  \cup (IF changed # {} THEN {"restored"} ELSE {})
                  \cup (IF (changed \cup flags) \ {e.c} # {} THEN {"isolation"} ELSE {}))
     /\ Adopt(e.st)
     /\ stack' = SubSeq(stack, 1, Len(stack) - 1)

\* a user-level change of any setting of context e.c (C38): no other context may change
TraceAct(e) ==
  LET moved == {c \in DOMAIN e.st : PMap(e.st)[c] # prec[c] \/ DMap(e.st)[c] # dps[c] \/ OMap(e.st)[c] # oth[c]}
  IN /\ Say(e.id, IF moved \ {e.c} # {} THEN {"isolation"} ELSE {})
     /\ Adopt(e.st) /\ stack' = stack
\* two outcomes that must be identical (a clone at the same precision)
TraceSame(e) == /\ Say(e.id, IF e.a # e.b THEN {"clone"} ELSE {})
                /\ UNCHANGED <<prec, dps, oth, stack>>

Next == /\ l <= Len(Trace) /\ l' = l + 1
        /\ LET e == Trace[l] IN
           CASE e.ev = "init" -> TraceInit(e)
             [] e.ev \in {"set_prec", "set_dps"} -> TraceSet(e)
             [] e.ev = "enter" -> TraceEnter(e)
             [] e.ev \in {"return", "raise"} -> TraceExit(e)
             [] e.ev = "abandon" -> \* the harness gave up on this call (wall-clock safety net): the frame is not judged
                  /\ Adopt(e.st) /\ stack' = SubSeq(stack, 1, Len(stack) - 1)
             [] e.ev = "act" -> TraceAct(e)
             [] e.ev = "same" -> TraceSame(e)
Consumed == TLCGet("stats").diameter - 1 = Len(Trace)
=============================================================================
