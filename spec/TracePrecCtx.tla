---------------------------- MODULE TracePrecCtx ----------------------------
(***************************************************************************)
(* M3 for C11 / C38: a recorded run of the real library -- every write to   *)
(* a context's prec/dps (logging property setters), bracketed by enter /    *)
(* return / raise events of public calls -- must be a behaviour of          *)
(* PrecState, and every frame must leave every context as it found it.      *)
(* Clauses (total verdicts, printed as <<"BAD", id, {clauses}>>):           *)
(*   setter    the logged (prec, dps) after a set differs from SetPrec/SetDps *)
(*   sync      the logged state at enter/exit differs from the state the     *)
(*             spec derived from the setter events (a write bypassed them)   *)
(*   restored  a call returned or raised with some context's (prec, dps)     *)
(*             different from what it was on entry                     (C11) *)
(*   isolation a set on context c changed another context               (C38) *)
(* After a mismatch the spec adopts the logged state so that the rest of    *)
(* the trace is still judged.                                               *)
(***************************************************************************)
EXTENDS PrecState, Sequences, Json, IOUtils, TLC
Trace == ndJsonDeserialize(IOEnv.TRACE_FILE)
VARIABLES stack, l
vars == <<prec, dps, stack, l>>
FMAX == 36000                      \* range on which the conversion formulas were validated
Names(st) == DOMAIN st
PMap(st) == [c \in DOMAIN st |-> st[c][1]]
DMap(st) == [c \in DOMAIN st |-> st[c][2]]
Say(id, cl) == IF cl = {} THEN TRUE ELSE PrintT(<<"BAD", id, cl>>)

Init == l = 1 /\ prec = <<>> /\ dps = <<>> /\ stack = <<>>

TraceInit(e) == /\ prec' = PMap(e.st) /\ dps' = DMap(e.st) /\ stack' = stack

TraceSet(e) ==
  LET s == IF e.ev = "set_prec" THEN SetPrecF(prec, dps, e.c, e.n) ELSE SetDpsF(prec, dps, e.c, e.n)
      logged == <<[prec EXCEPT ![e.c] = e.st[1]], [dps EXCEPT ![e.c] = e.st[2]]>>
      judged == e.n >= 0 /\ e.n <= FMAX
  IN /\ Say(e.id, IF judged /\ s # logged THEN {"setter"} ELSE {})
     /\ prec' = logged[1] /\ dps' = logged[2] /\ stack' = stack

TraceEnter(e) ==
  /\ Say(e.id, IF PMap(e.st) # prec \/ DMap(e.st) # dps THEN {"sync"} ELSE {})
  /\ prec' = PMap(e.st) /\ dps' = DMap(e.st)
  /\ stack' = Append(stack, [f |-> e.f, p |-> PMap(e.st), d |-> DMap(e.st)])

TraceExit(e) ==
  LET fr == stack[Len(stack)]
      changed == {c \in DOMAIN e.st : PMap(e.st)[c] # fr.p[c] \/ DMap(e.st)[c] # fr.d[c]}
  IN /\ Say(e.id, (IF PMap(e.st) # prec \/ DMap(e.st) # dps THEN {"sync"} ELSE {})
                  \cup (IF changed # {} THEN {"restored"} ELSE {})
                  \cup (IF changed \ {e.c} # {} THEN {"isolation"} ELSE {}))
     /\ prec' = PMap(e.st) /\ dps' = DMap(e.st)
     /\ stack' = SubSeq(stack, 1, Len(stack) - 1)

Next == /\ l <= Len(Trace) /\ l' = l + 1
        /\ LET e == Trace[l] IN
           CASE e.ev = "init" -> TraceInit(e)
             [] e.ev \in {"set_prec", "set_dps"} -> TraceSet(e)
             [] e.ev = "enter" -> TraceEnter(e)
             [] e.ev \in {"return", "raise"} -> TraceExit(e)
Consumed == TLCGet("stats").diameter - 1 = Len(Trace)
=============================================================================
